//! Reference model of chess ("boring on purpose").
//!
//! Mailbox board, coordinates as (file, rank) integers, attacks found by walking rays square by
//! square, legal = pseudo-legal whose result leaves the mover's king unattacked.  Nothing here
//! shares a line of code, a table or a representation with RustyYato/chess.
//!
//! Conventions that follow the *properties* (not the implementation):
//! * the en-passant marker is set on every double pawn step (C02), whether or not a capture is
//!   possible, and is part of a position's identity (C15);
//! * clocks are plain numbers: half-move reset by pawn moves and captures, otherwise +1;
//!   full-move +1 after Black moves;
//! * canonical FEN: six fields, rights in the order KQkq or `-`, the ep field names the
//!   *capture* square (rank 6 when White is to move, rank 3 when Black is).

use std::fmt::Write as _;

#[derive(Clone, Copy, PartialEq, Eq, Hash, Debug, PartialOrd, Ord)]
pub enum Pc {
    P,
    N,
    B,
    R,
    Q,
    K,
}

#[derive(Clone, Copy, PartialEq, Eq, Hash, Debug, PartialOrd, Ord)]
pub enum Col {
    W,
    B,
}

impl Col {
    pub fn flip(self) -> Col {
        match self {
            Col::W => Col::B,
            Col::B => Col::W,
        }
    }
    /// rank index (0-based) of the home rank
    pub fn home(self) -> i8 {
        match self {
            Col::W => 0,
            Col::B => 7,
        }
    }
    /// direction pawns move in
    pub fn fwd(self) -> i8 {
        match self {
            Col::W => 1,
            Col::B => -1,
        }
    }
}

pub const PROMOS: [Pc; 4] = [Pc::Q, Pc::R, Pc::B, Pc::N];

/// square index = rank * 8 + file, a1 = 0, h8 = 63
pub type Sq = u8;

#[inline]
pub fn sq(file: i8, rank: i8) -> Sq {
    debug_assert!((0..8).contains(&file) && (0..8).contains(&rank));
    (rank * 8 + file) as u8
}
#[inline]
pub fn file_of(s: Sq) -> i8 {
    (s % 8) as i8
}
#[inline]
pub fn rank_of(s: Sq) -> i8 {
    (s / 8) as i8
}
#[inline]
fn on_board(f: i8, r: i8) -> bool {
    (0..8).contains(&f) && (0..8).contains(&r)
}

pub fn sq_name(s: Sq) -> String {
    format!("{}{}", (b'a' + s % 8) as char, (b'1' + s / 8) as char)
}

pub fn parse_sq(b: &[u8]) -> Option<Sq> {
    if b.len() != 2 {
        return None;
    }
    let f = b[0].checked_sub(b'a')?;
    let r = b[1].checked_sub(b'1')?;
    if f < 8 && r < 8 {
        Some(r * 8 + f)
    } else {
        None
    }
}

#[derive(Clone, Copy, PartialEq, Eq, Hash, Debug, PartialOrd, Ord)]
pub struct Mv {
    pub from: Sq,
    pub to: Sq,
    pub promo: Option<Pc>,
}

impl Mv {
    pub fn new(from: Sq, to: Sq, promo: Option<Pc>) -> Mv {
        Mv { from, to, promo }
    }
    /// `e2e4`, `e7e8q`
    pub fn uci(&self) -> String {
        let mut s = format!("{}{}", sq_name(self.from), sq_name(self.to));
        if let Some(p) = self.promo {
            s.push(match p {
                Pc::N => 'n',
                Pc::B => 'b',
                Pc::R => 'r',
                Pc::Q => 'q',
                _ => '?',
            });
        }
        s
    }
    pub fn parse(s: &str) -> Option<Mv> {
        let b = s.as_bytes();
        if b.len() != 4 && b.len() != 5 {
            return None;
        }
        let from = parse_sq(&b[0..2])?;
        let to = parse_sq(&b[2..4])?;
        let promo = if b.len() == 5 {
            Some(match b[4] {
                b'n' => Pc::N,
                b'b' => Pc::B,
                b'r' => Pc::R,
                b'q' => Pc::Q,
                _ => return None,
            })
        } else {
            None
        };
        Some(Mv { from, to, promo })
    }
}

/// castling rights in FEN order: K, Q, k, q
pub const WK: usize = 0;
pub const WQ: usize = 1;
pub const BK: usize = 2;
pub const BQ: usize = 3;

#[derive(Clone, PartialEq, Eq, Hash, Debug)]
pub struct Position {
    pub board: [Option<(Col, Pc)>; 64],
    pub turn: Col,
    pub rights: [bool; 4],
    /// file of the pawn that just made a double step
    pub ep: Option<i8>,
    pub half: u32,
    pub full: u32,
}

/// what the properties call "a position" for repetition / hashing purposes
#[derive(Clone, Copy, PartialEq, Eq, Hash, Debug, PartialOrd, Ord)]
pub struct Identity {
    pub squares: [u8; 32],
    pub meta: u8,
    pub ep: u8,
}

#[derive(Clone, Copy, PartialEq, Eq, Debug)]
pub enum Status {
    Checkmate,
    Draw,
    Check,
    Running,
}

const KNIGHT_D: [(i8, i8); 8] = [(1, 2), (2, 1), (2, -1), (1, -2), (-1, -2), (-2, -1), (-2, 1), (-1, 2)];
const KING_D: [(i8, i8); 8] = [(1, 0), (1, 1), (0, 1), (-1, 1), (-1, 0), (-1, -1), (0, -1), (1, -1)];
const ROOK_D: [(i8, i8); 4] = [(1, 0), (0, 1), (-1, 0), (0, -1)];
const BISHOP_D: [(i8, i8); 4] = [(1, 1), (-1, 1), (-1, -1), (1, -1)];

fn pc_char(c: Col, p: Pc) -> char {
    let ch = match p {
        Pc::P => 'p',
        Pc::N => 'n',
        Pc::B => 'b',
        Pc::R => 'r',
        Pc::Q => 'q',
        Pc::K => 'k',
    };
    if c == Col::W {
        ch.to_ascii_uppercase()
    } else {
        ch
    }
}

fn char_pc(ch: u8) -> Option<(Col, Pc)> {
    let col = if ch.is_ascii_uppercase() { Col::W } else { Col::B };
    let p = match ch.to_ascii_lowercase() {
        b'p' => Pc::P,
        b'n' => Pc::N,
        b'b' => Pc::B,
        b'r' => Pc::R,
        b'q' => Pc::Q,
        b'k' => Pc::K,
        _ => return None,
    };
    Some((col, p))
}

impl Position {
    pub fn empty() -> Position {
        Position { board: [None; 64], turn: Col::W, rights: [false; 4], ep: None, half: 0, full: 0 }
    }

    /// the standard start, with the repository's convention that the game starts at full-move 0
    pub fn start() -> Position {
        Position::from_fen("rnbqkbnr/pppppppp/8/8/8/8/PPPPPPPP/RNBQKBNR w KQkq - 0 0").unwrap()
    }

    pub fn at(&self, s: Sq) -> Option<(Col, Pc)> {
        self.board[s as usize]
    }

    /// Strict reader of canonical six-field FEN (single spaces, rights in KQkq order, ep on the
    /// capture square of the side to move).  It checks syntax only, not playability.
    pub fn from_fen(s: &str) -> Result<Position, String> {
        let fields: Vec<&str> = s.split(' ').collect();
        if fields.len() != 6 {
            return Err(format!("expected 6 fields, got {}", fields.len()));
        }
        let mut p = Position::empty();
        let rows: Vec<&str> = fields[0].split('/').collect();
        if rows.len() != 8 {
            return Err("expected 8 ranks".into());
        }
        for (i, row) in rows.iter().enumerate() {
            let rank = 7 - i as i8;
            let mut file = 0i8;
            for &ch in row.as_bytes() {
                if (b'1'..=b'8').contains(&ch) {
                    file += (ch - b'0') as i8;
                } else if let Some(cp) = char_pc(ch) {
                    if file > 7 {
                        return Err("rank too long".into());
                    }
                    p.board[sq(file, rank) as usize] = Some(cp);
                    file += 1;
                } else {
                    return Err(format!("bad piece byte {ch}"));
                }
            }
            if file != 8 {
                return Err(format!("rank {} has {} files", rank + 1, file));
            }
        }
        p.turn = match fields[1] {
            "w" => Col::W,
            "b" => Col::B,
            _ => return Err("bad turn".into()),
        };
        if fields[2] != "-" {
            let mut rest = fields[2];
            for (i, tag) in ["K", "Q", "k", "q"].iter().enumerate() {
                if let Some(r) = rest.strip_prefix(tag) {
                    p.rights[i] = true;
                    rest = r;
                }
            }
            if !rest.is_empty() || fields[2].is_empty() {
                return Err("bad rights".into());
            }
        }
        if fields[3] != "-" {
            let s = parse_sq(fields[3].as_bytes()).ok_or("bad ep square")?;
            let want_rank = if p.turn == Col::W { 5 } else { 2 };
            if rank_of(s) != want_rank {
                return Err("ep rank does not match side to move".into());
            }
            p.ep = Some(file_of(s));
        }
        p.half = fields[4].parse().map_err(|_| "bad half-move clock")?;
        p.full = fields[5].parse().map_err(|_| "bad full-move clock")?;
        Ok(p)
    }

    pub fn placement_fen(&self) -> String {
        let mut out = String::new();
        for rank in (0..8).rev() {
            let mut empty = 0;
            for file in 0..8 {
                match self.board[sq(file, rank) as usize] {
                    Some((c, p)) => {
                        if empty > 0 {
                            write!(out, "{empty}").unwrap();
                            empty = 0;
                        }
                        out.push(pc_char(c, p));
                    }
                    None => empty += 1,
                }
            }
            if empty > 0 {
                write!(out, "{empty}").unwrap();
            }
            if rank > 0 {
                out.push('/');
            }
        }
        out
    }

    pub fn rights_str(&self) -> String {
        let mut s = String::new();
        for (i, ch) in ['K', 'Q', 'k', 'q'].iter().enumerate() {
            if self.rights[i] {
                s.push(*ch);
            }
        }
        if s.is_empty() {
            s.push('-');
        }
        s
    }

    pub fn ep_square(&self) -> Option<Sq> {
        self.ep.map(|f| sq(f, if self.turn == Col::W { 5 } else { 2 }))
    }

    pub fn to_fen(&self) -> String {
        format!(
            "{} {} {} {} {} {}",
            self.placement_fen(),
            if self.turn == Col::W { "w" } else { "b" },
            self.rights_str(),
            self.ep_square().map(sq_name).unwrap_or_else(|| "-".into()),
            self.half,
            self.full
        )
    }

    /// first four FEN fields
    pub fn epd(&self) -> String {
        format!(
            "{} {} {} {}",
            self.placement_fen(),
            if self.turn == Col::W { "w" } else { "b" },
            self.rights_str(),
            self.ep_square().map(sq_name).unwrap_or_else(|| "-".into()),
        )
    }

    pub fn identity(&self) -> Identity {
        let mut squares = [0u8; 32];
        for i in 0..64 {
            let code = match self.board[i] {
                None => 0u8,
                Some((c, p)) => 1 + p as u8 + if c == Col::B { 6 } else { 0 },
            };
            squares[i / 2] |= code << ((i % 2) * 4);
        }
        let mut meta = if self.turn == Col::B { 1u8 } else { 0 };
        for i in 0..4 {
            if self.rights[i] {
                meta |= 2 << i;
            }
        }
        Identity { squares, meta, ep: self.ep.map(|f| f as u8).unwrap_or(8) }
    }

    pub fn king_sq(&self, c: Col) -> Option<Sq> {
        (0..64u8).find(|&s| self.board[s as usize] == Some((c, Pc::K)))
    }

    /// is square `s` attacked by any piece of colour `by`?
    pub fn attacked(&self, s: Sq, by: Col) -> bool {
        let (f, r) = (file_of(s), rank_of(s));
        // pawns: a pawn of colour `by` on (f±1, r - fwd) attacks (f, r)
        for df in [-1, 1] {
            let (pf, pr) = (f + df, r - by.fwd());
            if on_board(pf, pr) && self.board[sq(pf, pr) as usize] == Some((by, Pc::P)) {
                return true;
            }
        }
        for (df, dr) in KNIGHT_D {
            let (nf, nr) = (f + df, r + dr);
            if on_board(nf, nr) && self.board[sq(nf, nr) as usize] == Some((by, Pc::N)) {
                return true;
            }
        }
        for (df, dr) in KING_D {
            let (nf, nr) = (f + df, r + dr);
            if on_board(nf, nr) && self.board[sq(nf, nr) as usize] == Some((by, Pc::K)) {
                return true;
            }
        }
        for (dirs, slider) in [(ROOK_D, Pc::R), (BISHOP_D, Pc::B)] {
            for (df, dr) in dirs {
                let (mut nf, mut nr) = (f + df, r + dr);
                while on_board(nf, nr) {
                    if let Some((c, p)) = self.board[sq(nf, nr) as usize] {
                        if c == by && (p == slider || p == Pc::Q) {
                            return true;
                        }
                        break;
                    }
                    nf += df;
                    nr += dr;
                }
            }
        }
        false
    }

    /// squares of the pieces of colour `by` that attack `s` (for reporting / double check counts)
    pub fn attackers(&self, s: Sq, by: Col) -> Vec<Sq> {
        let mut out = vec![];
        for from in 0..64u8 {
            if let Some((c, _)) = self.board[from as usize] {
                if c == by {
                    // remove everything but this piece's own attack: test with a board where only
                    // that piece of colour `by` is kept as attacker
                    let mut q = self.clone();
                    for t in 0..64 {
                        if t != from as usize {
                            if let Some((c2, _)) = q.board[t] {
                                if c2 == by {
                                    // keep as blocker but make it harmless: a piece of the other
                                    // colour blocks exactly the same rays
                                    q.board[t] = Some((by.flip(), Pc::P));
                                }
                            }
                        }
                    }
                    // harmless pawns of the other colour never attack for `by`
                    if q.attacked(s, by) {
                        out.push(from);
                    }
                }
            }
        }
        out
    }

    pub fn in_check(&self) -> bool {
        match self.king_sq(self.turn) {
            Some(k) => self.attacked(k, self.turn.flip()),
            None => false,
        }
    }

    /// all pseudo-legal moves: right piece movement, not capturing own pieces, castling with
    /// all its conditions, en passant by geometry; king safety NOT yet tested
    pub fn pseudo_legal(&self) -> Vec<Mv> {
        let us = self.turn;
        let mut out = Vec::with_capacity(64);
        for from in 0..64u8 {
            let Some((c, p)) = self.board[from as usize] else { continue };
            if c != us {
                continue;
            }
            let (f, r) = (file_of(from), rank_of(from));
            match p {
                Pc::P => {
                    let fwd = us.fwd();
                    let start_rank = if us == Col::W { 1 } else { 6 };
                    let promo_rank = if us == Col::W { 7 } else { 0 };
                    let mut push = |to: Sq, out: &mut Vec<Mv>| {
                        if rank_of(to) == promo_rank {
                            for pp in PROMOS {
                                out.push(Mv::new(from, to, Some(pp)));
                            }
                        } else {
                            out.push(Mv::new(from, to, None));
                        }
                    };
                    let r1 = r + fwd;
                    if on_board(f, r1) && self.board[sq(f, r1) as usize].is_none() {
                        push(sq(f, r1), &mut out);
                        let r2 = r + 2 * fwd;
                        if r == start_rank && self.board[sq(f, r2) as usize].is_none() {
                            push(sq(f, r2), &mut out);
                        }
                    }
                    for df in [-1, 1] {
                        let (nf, nr) = (f + df, r + fwd);
                        if !on_board(nf, nr) {
                            continue;
                        }
                        let to = sq(nf, nr);
                        match self.board[to as usize] {
                            Some((c2, _)) if c2 != us => push(to, &mut out),
                            None => {
                                if Some(to) == self.ep_square() {
                                    // the victim stands beside us on the ep file
                                    if self.board[sq(nf, r) as usize] == Some((us.flip(), Pc::P)) {
                                        out.push(Mv::new(from, to, None));
                                    }
                                }
                            }
                            _ => {}
                        }
                    }
                }
                Pc::N | Pc::K => {
                    let dirs = if p == Pc::N { KNIGHT_D } else { KING_D };
                    for (df, dr) in dirs {
                        let (nf, nr) = (f + df, r + dr);
                        if !on_board(nf, nr) {
                            continue;
                        }
                        let to = sq(nf, nr);
                        match self.board[to as usize] {
                            Some((c2, _)) if c2 == us => {}
                            _ => out.push(Mv::new(from, to, None)),
                        }
                    }
                    if p == Pc::K {
                        self.castling(from, &mut out);
                    }
                }
                Pc::B | Pc::R | Pc::Q => {
                    let mut dirs: Vec<(i8, i8)> = vec![];
                    if p != Pc::B {
                        dirs.extend(ROOK_D);
                    }
                    if p != Pc::R {
                        dirs.extend(BISHOP_D);
                    }
                    for (df, dr) in dirs {
                        let (mut nf, mut nr) = (f + df, r + dr);
                        while on_board(nf, nr) {
                            let to = sq(nf, nr);
                            match self.board[to as usize] {
                                None => out.push(Mv::new(from, to, None)),
                                Some((c2, _)) => {
                                    if c2 != us {
                                        out.push(Mv::new(from, to, None));
                                    }
                                    break;
                                }
                            }
                            nf += df;
                            nr += dr;
                        }
                    }
                }
            }
        }
        out
    }

    fn castling(&self, king_from: Sq, out: &mut Vec<Mv>) {
        let us = self.turn;
        let them = us.flip();
        let home = us.home();
        if king_from != sq(4, home) {
            return;
        }
        let (ks, qs) = if us == Col::W { (WK, WQ) } else { (BK, BQ) };
        // king side: king e->g, rook h->f; f and g empty; e, f, g not attacked
        if self.rights[ks]
            && self.board[sq(7, home) as usize] == Some((us, Pc::R))
            && self.board[sq(5, home) as usize].is_none()
            && self.board[sq(6, home) as usize].is_none()
            && !self.attacked(sq(4, home), them)
            && !self.attacked(sq(5, home), them)
            && !self.attacked(sq(6, home), them)
        {
            out.push(Mv::new(king_from, sq(6, home), None));
        }
        // queen side: king e->c, rook a->d; b, c, d empty; e, d, c not attacked
        if self.rights[qs]
            && self.board[sq(0, home) as usize] == Some((us, Pc::R))
            && self.board[sq(1, home) as usize].is_none()
            && self.board[sq(2, home) as usize].is_none()
            && self.board[sq(3, home) as usize].is_none()
            && !self.attacked(sq(4, home), them)
            && !self.attacked(sq(3, home), them)
            && !self.attacked(sq(2, home), them)
        {
            out.push(Mv::new(king_from, sq(2, home), None));
        }
    }

    fn is_castle(&self, m: Mv) -> bool {
        matches!(self.board[m.from as usize], Some((_, Pc::K))) && (file_of(m.from) - file_of(m.to)).abs() == 2
    }

    fn is_ep_capture(&self, m: Mv) -> bool {
        matches!(self.board[m.from as usize], Some((_, Pc::P)))
            && file_of(m.from) != file_of(m.to)
            && self.board[m.to as usize].is_none()
    }

    /// apply a pseudo-legal move
    pub fn make(&self, m: Mv) -> Position {
        let mut n = self.clone();
        let us = self.turn;
        let (_, piece) = self.board[m.from as usize].expect("make: empty source");
        let capture = self.board[m.to as usize].is_some() || self.is_ep_capture(m);

        if self.is_ep_capture(m) {
            n.board[sq(file_of(m.to), rank_of(m.from)) as usize] = None;
        }
        if self.is_castle(m) {
            let home = rank_of(m.from);
            if file_of(m.to) == 6 {
                n.board[sq(7, home) as usize] = None;
                n.board[sq(5, home) as usize] = Some((us, Pc::R));
            } else {
                n.board[sq(0, home) as usize] = None;
                n.board[sq(3, home) as usize] = Some((us, Pc::R));
            }
        }
        n.board[m.from as usize] = None;
        n.board[m.to as usize] = Some((us, m.promo.unwrap_or(piece)));

        // rights: lost when the king or a rook leaves home, or a home rook is captured
        for s in [m.from, m.to] {
            match s {
                4 => {
                    n.rights[WK] = false;
                    n.rights[WQ] = false;
                }
                60 => {
                    n.rights[BK] = false;
                    n.rights[BQ] = false;
                }
                7 => n.rights[WK] = false,
                0 => n.rights[WQ] = false,
                63 => n.rights[BK] = false,
                56 => n.rights[BQ] = false,
                _ => {}
            }
        }

        n.ep = if piece == Pc::P && (rank_of(m.from) - rank_of(m.to)).abs() == 2 { Some(file_of(m.from)) } else { None };
        n.half = if piece == Pc::P || capture { 0 } else { self.half + 1 };
        n.full = self.full + if us == Col::B { 1 } else { 0 };
        n.turn = us.flip();
        n
    }

    pub fn legal_moves(&self) -> Vec<Mv> {
        let us = self.turn;
        let mut out: Vec<Mv> = self
            .pseudo_legal()
            .into_iter()
            .filter(|&m| {
                let n = self.make(m);
                match n.king_sq(us) {
                    Some(k) => !n.attacked(k, us.flip()),
                    None => false,
                }
            })
            .collect();
        out.sort();
        out
    }

    /// pseudo-legal moves that are not legal (the "near misses" offered to the checked operations)
    pub fn pseudo_illegal(&self) -> Vec<Mv> {
        let legal = self.legal_moves();
        self.pseudo_legal().into_iter().filter(|m| !legal.contains(m)).collect()
    }

    pub fn status(&self) -> Status {
        let none = self.legal_moves().is_empty();
        let chk = self.in_check();
        if none && chk {
            Status::Checkmate
        } else if none || self.half >= 100 {
            Status::Draw
        } else if chk {
            Status::Check
        } else {
            Status::Running
        }
    }

    /// moves after which the opponent is checkmated
    pub fn mating_moves(&self) -> Vec<Mv> {
        self.legal_moves()
            .into_iter()
            .filter(|&m| {
                let n = self.make(m);
                n.in_check() && n.legal_moves().is_empty()
            })
            .collect()
    }

    /// swap colours, flip ranks, swap rights, keep the ep file
    pub fn mirror(&self) -> Position {
        let mut n = Position::empty();
        for s in 0..64u8 {
            if let Some((c, p)) = self.board[s as usize] {
                n.board[sq(file_of(s), 7 - rank_of(s)) as usize] = Some((c.flip(), p));
            }
        }
        n.turn = self.turn.flip();
        n.rights = [self.rights[BK], self.rights[BQ], self.rights[WK], self.rights[WQ]];
        n.ep = self.ep;
        n.half = self.half;
        n.full = self.full;
        n
    }

    pub fn count(&self, c: Col) -> usize {
        self.board.iter().filter(|x| matches!(x, Some((cc, _)) if *cc == c)).count()
    }

    /// The C06 invariants: what every board returned by the parser or the builder must satisfy.
    pub fn playable(&self) -> Result<(), String> {
        for c in [Col::W, Col::B] {
            let kings = self.board.iter().filter(|x| **x == Some((c, Pc::K))).count();
            if kings != 1 {
                return Err(format!("{c:?} has {kings} kings"));
            }
            if self.count(c) > 16 {
                return Err(format!("{c:?} has more than 16 pieces"));
            }
        }
        let them = self.turn.flip();
        if self.attacked(self.king_sq(them).unwrap(), self.turn) {
            return Err("side not to move is in check".into());
        }
        let need = [(WK, 4u8, 7u8, Col::W), (WQ, 4, 0, Col::W), (BK, 60, 63, Col::B), (BQ, 60, 56, Col::B)];
        for (i, k, r, c) in need {
            if self.rights[i] && (self.board[k as usize] != Some((c, Pc::K)) || self.board[r as usize] != Some((c, Pc::R))) {
                return Err(format!("castling right {} without king and rook at home", ["K", "Q", "k", "q"][i]));
            }
        }
        if let Some(f) = self.ep {
            let (cap_rank, pawn_rank) = if self.turn == Col::W { (5, 4) } else { (2, 3) };
            if self.board[sq(f, cap_rank) as usize].is_some() {
                return Err("ep marker on an occupied square".into());
            }
            if self.board[sq(f, pawn_rank) as usize] != Some((them, Pc::P)) {
                return Err("ep marker not behind an enemy pawn on its double-step rank".into());
            }
        }
        Ok(())
    }

    /// Root admissibility for the move-generation properties (DESIGN §2.2): playable, no pawn on
    /// rank 1/8, and the ep marker is retro-consistent (origin square empty, and with the pawn put
    /// back on its origin the side now to move is not in check by anything but ... nothing: it was
    /// the opponent's move, so our king cannot have been attacked *before* the double step unless
    /// the double step itself is what we are looking at).
    pub fn valid_root(&self) -> Result<(), String> {
        self.playable()?;
        for s in 0..64u8 {
            if matches!(self.board[s as usize], Some((_, Pc::P))) && (rank_of(s) == 0 || rank_of(s) == 7) {
                return Err("pawn on rank 1/8".into());
            }
        }
        if let Some(f) = self.ep {
            let them = self.turn.flip();
            let (cap_rank, pawn_rank, origin_rank) = if self.turn == Col::W { (5, 4, 6) } else { (2, 3, 1) };
            if self.board[sq(f, origin_rank) as usize].is_some() {
                return Err("ep: origin square of the double step is occupied".into());
            }
            let _ = cap_rank;
            let mut before = self.clone();
            before.board[sq(f, pawn_rank) as usize] = None;
            before.board[sq(f, origin_rank) as usize] = Some((them, Pc::P));
            // before the double step it was `them` to move, so `self.turn`'s king must not have
            // been attacked then
            if before.attacked(before.king_sq(self.turn).unwrap(), them) {
                return Err("ep: marker cannot have arisen (mover's opponent was already in check)".into());
            }
        }
        Ok(())
    }

    pub fn perft(&self, depth: u32) -> u64 {
        if depth == 0 {
            return 1;
        }
        let moves = self.legal_moves();
        if depth == 1 {
            return moves.len() as u64;
        }
        moves.iter().map(|&m| self.make(m).perft(depth - 1)).sum()
    }
}

/// published perft values; the reference must reproduce them or nothing it says is used
pub const PERFT_GATE: &[(&str, &[u64])] = &[
    ("rnbqkbnr/pppppppp/8/8/8/8/PPPPPPPP/RNBQKBNR w KQkq - 0 1", &[20, 400, 8902, 197281]),
    ("r3k2r/p1ppqpb1/bn2pnp1/3PN3/1p2P3/2N2Q1p/PPPBBPPP/R3K2R w KQkq - 0 1", &[48, 2039, 97862]),
    ("8/2p5/3p4/KP5r/1R3p1k/8/4P1P1/8 w - - 0 1", &[14, 191, 2812, 43238]),
    ("r3k2r/Pppp1ppp/1b3nbN/nP6/BBP1P3/q4N2/Pp1P2PP/R2Q1RK1 w kq - 0 1", &[6, 264, 9467]),
    ("rnbq1k1r/pp1Pbppp/2p5/8/2B5/8/PPP1NnPP/RNBQK2R w KQ - 1 8", &[44, 1486, 62379]),
    ("r4rk1/1pp1qppp/p1np1n2/2b1p1B1/2B1P1b1/P1NP1N2/1PP1QPPP/R4RK1 w - - 0 10", &[46, 2079, 89890]),
];

/// deeper values, used by `setup` (a few seconds on one core)
pub const PERFT_GATE_DEEP: &[(&str, u32, u64)] = &[
    ("rnbqkbnr/pppppppp/8/8/8/8/PPPPPPPP/RNBQKBNR w KQkq - 0 1", 5, 4865609),
    ("r3k2r/p1ppqpb1/bn2pnp1/3PN3/1p2P3/2N2Q1p/PPPBBPPP/R3K2R w KQkq - 0 1", 4, 4085603),
    ("8/2p5/3p4/KP5r/1R3p1k/8/4P1P1/8 w - - 0 1", 5, 674624),
    ("r3k2r/Pppp1ppp/1b3nbN/nP6/BBP1P3/q4N2/Pp1P2PP/R2Q1RK1 w kq - 0 1", 4, 422333),
    ("rnbq1k1r/pp1Pbppp/2p5/8/2B5/8/PPP1NnPP/RNBQK2R w KQ - 1 8", 4, 2103487),
];

pub fn self_test(deep: bool) -> Result<(), String> {
    for (fen, vals) in PERFT_GATE {
        let p = Position::from_fen(fen)?;
        if p.to_fen() != *fen {
            return Err(format!("reference FEN round trip failed on {fen}"));
        }
        for (i, &v) in vals.iter().enumerate() {
            let got = p.perft(i as u32 + 1);
            if got != v {
                return Err(format!("reference perft({}) of {fen} = {got}, published {v}", i + 1));
            }
        }
        // colour mirror must preserve counts
        let m = p.mirror();
        if m.perft(2) != vals[1] || m.mirror() != p {
            return Err(format!("reference mirror broken on {fen}"));
        }
    }
    if deep {
        for (fen, d, v) in PERFT_GATE_DEEP {
            let got = Position::from_fen(fen)?.perft(*d);
            if got != *v {
                return Err(format!("reference perft({d}) of {fen} = {got}, published {v}"));
            }
        }
    }
    Ok(())
}

#[cfg(test)]
mod tests {
    use super::*;
    #[test]
    fn gate() {
        self_test(false).unwrap();
    }
    #[test]
    fn ep_rank_discovery() {
        let p = Position::from_fen("8/8/8/K2pP2r/8/8/8/7k w - d6 0 1").unwrap();
        let l = p.legal_moves();
        assert!(!l.contains(&Mv::parse("e5d6").unwrap()));
        assert!(l.contains(&Mv::parse("e5e6").unwrap()));
    }
}
