//! C01-C05: bounds per tier, evidence, replay; plus the cross-check of the reference model
//! against the second oracle (shakmaty).

use crate::common::*;
use crate::explore::*;
use crate::oracles::*;
use crate::roots::*;
use crate::Args;
use refchess::Position;
use serde_json::{json, Value};

fn props_for(prop: &str) -> Props {
    let mut p = Props::default();
    match prop {
        "C01" => {
            p.c01 = true;
            p.full_sweep = true;
        }
        "C02" => {
            p.c02 = true;
            p.full_sweep = true;
        }
        "C03" => p.c03 = true,
        "C04" => p.c04 = true,
        "C05" => p.c05 = true,
        _ => unreachable!(),
    }
    p
}

pub fn replay_case(prop: &str, case: &Value) -> Vec<Divergence> {
    let props = props_for(prop);
    match case["kind"].as_str() {
        Some("state") => {
            let moves: Vec<String> = case["moves"].as_array().map(|a| a.iter().map(|m| m.as_str().unwrap().to_string()).collect()).unwrap_or_default();
            replay_state(case["root"].as_str().unwrap(), &moves, &props)
        }
        Some("transposition") => {
            let root = case["root"].as_str().unwrap();
            let play = |key: &str| -> Option<chess_movegen::Board> {
                let mut b = parse_board(root).ok()?;
                for m in case[key].as_array()? {
                    b = b.move_new(real_mv(refchess::Mv::parse(m.as_str()?)?))?;
                }
                Some(b)
            };
            match (play("moves_a"), play("moves_b")) {
                (Some(a), Some(b)) if a == b && a.zobrist() != b.zobrist() => {
                    vec![Divergence::new("transposition-hash-differs", format!("{} vs {}", a.zobrist(), b.zobrist()))]
                }
                _ => vec![],
            }
        }
        Some("keys") => c04_keys().1,
        Some("fen") => {
            let fen = case["fen"].as_str().unwrap();
            match parse_board(fen) {
                Ok(_) => vec![],
                Err(e) => vec![
                    Divergence::new("root-rejected", format!("'{fen}': {e}")),
                    Divergence::new("family-member-rejected", format!("'{fen}': {e}")),
                ],
            }
        }
        Some("fields") => c05_fields_case(case["fen"].as_str().unwrap()),
        Some("extreme-clocks") => c02_extreme_clocks().1.into_iter().flat_map(|x| x.1).collect(),
        Some("constructors") => {
            if prop == "C04" {
                let mut bd = vec![];
                let _ = c05_builder_sequences(&mut bd);
                bd.into_iter().filter(|x| x.class.contains("hash")).collect()
            } else {
                c05_constructors()
            }
        }
        _ => machinery_failure("replay: unknown case kind"),
    }
}

struct Bounds {
    start_depth: u32,
    perft_depth: u32,
    scenario_depth: u32,
    families: Vec<(Family, u8, bool)>,
    sweep_stride: u64,
}

fn bounds(prop: &str, tier: Tier) -> Bounds {
    let q = tier == Tier::Quick;
    use Family::*;
    // (family, size level, also check the children one ply below)
    let thorough_families = vec![(PawnPush, 1, true), (TwoPins, 1, true), (PromoDouble, 1, true), (OfficerCheck, 1, true), (PromoPin, 0, true), (Pin, 1, true), (EpPlayed, 1, true), (Ep, 1, true), (Castle, 1, true), (Promo, 1, true), (EpCheck, 1, true), (PromoCheck, 1, true), (Three, 0, true)];
    match prop {
        "C01" => Bounds {
            start_depth: if q { 4 } else { 6 },
            perft_depth: if q { 2 } else { 4 },
            scenario_depth: if q { 2 } else { 3 },
            families: if q { vec![(PawnPush, 0, true), (TwoPins, 0, false), (PromoDouble, 0, true), (PromoPin, 0, true), (Three, 0, false), (Pin, 0, false), (Ep, 0, false), (EpPlayed, 0, true), (Castle, 0, false), (Promo, 0, false)] } else { thorough_families },
            sweep_stride: 64,
        },
        "C02" => Bounds {
            start_depth: if q { 4 } else { 5 },
            perft_depth: if q { 2 } else { 3 },
            scenario_depth: if q { 2 } else { 3 },
            families: if q {
                vec![(PawnPush, 0, true), (TwoPins, 0, false), (PromoDouble, 0, true), (OfficerCheck, 0, true), (PromoPin, 0, true), (EpCheck, 0, true), (PromoCheck, 0, false), (Castle, 0, false)]
            } else {
                vec![(PawnPush, 1, true), (TwoPins, 1, false), (PromoDouble, 1, true), (OfficerCheck, 1, true), (PromoPin, 0, true), (Pin, 0, false), (Ep, 1, false), (Castle, 1, false), (Promo, 1, false), (EpCheck, 1, false), (PromoCheck, 1, false), (Three, 0, false)]
            },
            sweep_stride: 256,
        },
        "C03" => Bounds {
            start_depth: if q { 4 } else { 6 },
            perft_depth: if q { 2 } else { 4 },
            scenario_depth: if q { 2 } else { 3 },
            families: if q { vec![(PawnPush, 0, true), (TwoPins, 0, false), (PromoDouble, 0, true), (OfficerCheck, 0, true), (PromoPin, 0, true), (Three, 0, false), (Pin, 0, false), (Ep, 0, false), (EpCheck, 0, true), (PromoCheck, 0, true), (Castle, 0, true)] } else { thorough_families },
            sweep_stride: 64,
        },
        "C04" => Bounds {
            start_depth: if q { 5 } else { 6 },
            perft_depth: if q { 3 } else { 4 },
            scenario_depth: if q { 3 } else { 4 },
            families: if q { vec![(PawnPush, 0, true), (Castle, 0, true), (EpCheck, 0, true), (PromoCheck, 0, true)] } else { thorough_families },
            sweep_stride: 64,
        },
        _ => Bounds {
            start_depth: if q { 4 } else { 6 },
            perft_depth: if q { 2 } else { 4 },
            scenario_depth: if q { 2 } else { 3 },
            families: if q { vec![(PawnPush, 0, true), (PromoPin, 0, true), (Three, 0, false), (Ep, 0, false), (EpCheck, 0, true), (PromoCheck, 0, true), (Castle, 0, true)] } else { thorough_families },
            sweep_stride: 64,
        },
    }
}

pub fn run(prop: &str, args: &Args) -> i32 {
    let report = Report::new(prop, args.tier, args.seed, "model_checking");
    let props = props_for(prop);
    let b = bounds(prop, args.tier);
    let (roots, rejected) = all_roots();
    let mut totals = Totals::default();
    let mut samples: Vec<Value> = vec![];
    let mut per_root = vec![];

    for root in &roots {
        let depth = if root.name.starts_with("start") {
            b.start_depth
        } else if root.name.starts_with("perft") || root.name.starts_with("extra") {
            b.perft_depth
        } else {
            b.scenario_depth
        };
        let cfg = E1Config { depth, props, sweep_stride: b.sweep_stride, dest_filter: None };
        let mut s = vec![];
        let t = run_e1(root, &cfg, &report, &mut s);
        if samples.len() < 6 {
            samples.extend(s.into_iter().take(1));
        }
        per_root.push(json!({"root": root.name, "depth": depth, "states": t.states, "transitions": t.transitions}));
        totals.merge(&t);
    }
    // histories that matter for castling rights explored DEEP over a small move alphabet: a pawn
    // captures a home rook while promoting (the right goes although neither king nor rook moved),
    // the other rook later walks to the empty corner with the king still at home, ... ; moves are
    // followed only when they land on a dozen squares around the home corners, the castling squares or
    // two squares for the other king to shuffle on (every transition is checked regardless)
    if matches!(prop, "C01" | "C02" | "C03") && !reduced() {
        let corner = |s: &[&str]| -> u64 { s.iter().fold(0u64, |a, x| a | 1u64 << ((x.as_bytes()[1] - b'1') * 8 + (x.as_bytes()[0] - b'a'))) };
        let white_home = corner(&["a1", "b1", "c1", "f1", "g1", "h1", "a2", "b2", "g2", "h2", "b3", "g3", "e8", "d8"]);
        let black_home = corner(&["a8", "b8", "c8", "f8", "g8", "h8", "a7", "b7", "g7", "h7", "b6", "g6", "e1", "d1"]);
        for (fen, mask) in [
            ("4k3/8/8/8/8/8/6p1/R3K2R b KQ - 0 1", white_home),
            ("4k3/8/8/8/8/8/1p6/R3K2R b KQ - 0 1", white_home),
            ("r3k2r/6P1/8/8/8/8/8/4K3 w kq - 0 1", black_home),
            ("r3k2r/1P6/8/8/8/8/8/4K3 w kq - 0 1", black_home),
        ] {
            let root = Root { name: format!("rights-history:{fen}"), pos: Position::from_fen(fen).unwrap() };
            let mut hp = props;
            hp.carry_played = true;
            let cfg = E1Config { depth: if args.tier == Tier::Quick { 8 } else { 10 }, props: hp, sweep_stride: 1 << 20, dest_filter: Some(mask) };
            let mut s = vec![];
            let t = run_e1(&root, &cfg, &report, &mut s);
            per_root.push(json!({"root": root.name, "depth": cfg.depth, "states": t.states, "transitions": t.transitions, "followed_moves_restricted_to_destination_set": true}));
            totals.merge(&t);
        }
    }
    let e1_states = totals.states;
    eprintln!("[{prop}] E1 done: {} states, {:.1}s", e1_states, report.start.elapsed().as_secs_f64());

    // families
    let mut fam_json = vec![];
    for (fam, level, children) in &b.families {
        if reduced() && (matches!(*fam, Family::Promo | Family::Ep | Family::EpPlayed | Family::PromoCheck | Family::Pin) || (*fam == Family::Three && prop == "C01")) {
            continue;
        }
        let mut child_props = props;
        child_props.full_sweep = false;
        let mut root_props = props;
        root_props.full_sweep = false;
        let special_only = args.tier == Tier::Quick && prop != "C01" && *fam != Family::PawnPush && *fam != Family::PromoPin && *fam != Family::OfficerCheck && *fam != Family::TwoPins && *fam != Family::PromoDouble;
        let t = run_family(*fam, *level, &root_props, if *children { Some(&child_props) } else { None }, special_only, &report, &mut samples);
        fam_json.push(json!({"family": format!("{fam:?}"), "level": level, "transitions_restricted_to_special_moves": args.tier == Tier::Quick && prop != "C01", "positions": t.family_positions, "states_checked": t.states, "transitions": t.transitions, "rejected_as_invalid": t.family_rejected_invalid}));
        totals.merge(&t);
        eprintln!("[{prop}] family {fam:?}/{level} done: {} positions, {:.1}s", t.family_positions, report.start.elapsed().as_secs_f64());
    }

    // property-specific closed enumerations
    let mut extra = json!({});
    if prop == "C04" {
        // the builder is the other from-scratch constructor: its hash must equal the parser's for
        // every call sequence (rejected placements, removals, re-placements)
        let mut bd = vec![];
        let nseq = c05_builder_sequences(&mut bd);
        let bd: Vec<Divergence> = bd.into_iter().filter(|x| x.class.contains("hash")).collect();
        report.record(&bd, || json!({"kind": "constructors"}));
        totals.states += nseq;
        let (keys, d) = c04_keys();
        report.record(&d, || json!({"kind": "keys"}));
        extra = json!({"key_table_entries": keys.len(), "key_pairs_compared": keys.len() * (keys.len() - 1) / 2});
    }
    if prop == "C02" {
        let (n, d) = c02_extreme_clocks();
        for (what, dd) in d {
            report.record(&dd, || json!({"kind": "extreme-clocks", "case": what}));
        }
        extra = json!({"extreme_clock_transitions": n});
        totals.transitions += n;
    }
    if prop == "C05" {
        let (n, d) = c05_fields(args.tier);
        for (fen, dd) in d {
            report.record(&dd, || json!({"kind": "fields", "fen": fen}));
        }
        let dd = c05_constructors();
        report.record(&dd, || json!({"kind": "constructors"}));
        extra = json!({"field_product_fens": n});
        totals.states += n;
    }

    let mut cov = totals.to_json();
    let o = cov.as_object_mut().unwrap();
    o.insert("e1_states".into(), json!(e1_states));
    o.insert("traces_validated_against_impl".into(), json!(totals.transitions));
    o.insert("evaluations".into(), json!(totals.states));
    o.insert("distinct_nontrivial".into(), json!(totals.nontrivial));
    o.insert(
        "rule".into(),
        json!("E1: BFS from every catalogue root (each also colour-mirrored), states deduplicated on (placement, side, rights, ep file[, half-move clock if >= 90]); for C01-C03 also four rights-history roots explored to depth 8 (thorough 10) over a small destination set while carrying the board reached by play (stale castling rights); E2: every square assignment of the listed small-material families. A state is non-trivial when en passant is available, the side to move is in check, the legality filter rejects a pseudo-legal move (pin / king step into attack), castling is available or a promotion is available. Every transition is executed on the real Board (move_new) and on the reference in lock-step."),
    );
    o.insert("exhaustive".into(), json!(true));
    o.insert("bounds".into(), json!({"start_depth": b.start_depth, "perft_root_depth": b.perft_depth, "scenario_root_depth": b.scenario_depth, "caps_hit": false}));
    o.insert("per_root".into(), json!(per_root));
    o.insert("families".into(), json!(fam_json));
    o.insert("roots_rejected_by_admissibility".into(), json!(rejected));
    o.insert("distinct_divergence_classes".into(), json!(report.divergence_classes()));
    o.insert("samples".into(), json!(samples));
    if let Some(e) = extra.as_object() {
        for (k, v) in e {
            o.insert(k.clone(), v.clone());
        }
    }
    report.finish(
        cov,
        &[
            "reference model refchess (gated by published perft values and the scenario catalogue at every run; cross-checked against shakmaty at setup)",
            "roots restricted to admissible positions (DESIGN 2.2)",
            "castling rights / ep marker of a real board are read from its Debug rendering and through Eq against the re-parsed reference FEN",
        ],
    )
}

// ---------------------------------------------------------------- C05 closed enumerations

/// complete field products on fixed placements
fn c05_field_fens(tier: Tier) -> Vec<String> {
    let mut out = vec![];
    // all 16 rights subsets x both sides x no-ep/ep on each file
    // placement with all four rooks and kings home, and pawns placed so that an ep marker is
    // geometrically valid on every file for either side
    let w_place = "r3k2r/8/8/pppppppp/8/8/8/R3K2R"; // black pawns on rank 5: ep for White to move
    let b_place = "r3k2r/8/8/8/PPPPPPPP/8/8/R3K2R"; // white pawns on rank 4: ep for Black to move
    for r in 0..16u8 {
        let mut rs = String::new();
        for (i, ch) in ['K', 'Q', 'k', 'q'].iter().enumerate() {
            if r & (1 << i) != 0 {
                rs.push(*ch);
            }
        }
        if rs.is_empty() {
            rs.push('-');
        }
        for (place, turn, rank) in [(w_place, 'w', '6'), (b_place, 'b', '3')] {
            out.push(format!("{place} {turn} {rs} - 0 1"));
            for f in 0..8u8 {
                out.push(format!("{place} {turn} {rs} {}{rank} 0 1", (b'a' + f) as char));
            }
        }
    }
    // all clocks
    let max = if tier == Tier::Quick { 9999 } else { 9999 };
    for h in 0..=max {
        out.push(format!("r3k2r/8/8/8/8/8/8/R3K2R w KQkq - {h} 7"));
    }
    for f in 0..=max {
        out.push(format!("r3k2r/8/8/8/8/8/8/R3K2R b KQkq - 3 {f}"));
    }
    for h in [0, 1, 9, 10, 99, 100, 999, 1000, 9999] {
        for f in [0, 1, 9, 10, 99, 100, 999, 1000, 9999] {
            out.push(format!("4k3/8/8/8/8/8/8/4K3 w - - {h} {f}"));
        }
    }
    // the longest texts a board can have: fragmented placements (a piece on every other square),
    // all four rights, an en-passant square and four-digit clocks (up to 91 bytes)
    for place in crate::roots::LONG_PLACEMENTS {
        for (turn, ep) in [("w", "-"), ("b", "-")] {
            for clocks in ["0 1", "9999 9999", "103 60"] {
                for rights in ["KQkq", "-"] {
                    out.push(format!("{place} {turn} {rights} {ep} {clocks}"));
                }
            }
        }
    }
    out
}

pub fn c05_fields_case(fen: &str) -> Vec<Divergence> {
    let rp = Position::from_fen(fen).unwrap_or_else(|e| machinery_failure(&format!("field fen {fen}: {e}")));
    match parse_board(fen) {
        Ok(b) => c05_state(&rp, &b),
        Err(e) => vec![Divergence::new("canonical-fen-rejected", format!("'{fen}' rejected: {e}"))],
    }
}

fn c05_fields(tier: Tier) -> (u64, Vec<(String, Vec<Divergence>)>) {
    use rayon::prelude::*;
    let fens = c05_field_fens(tier);
    let bad: Vec<(String, Vec<Divergence>)> = fens
        .par_iter()
        .filter_map(|f| {
            let d = c05_fields_case(f);
            if d.is_empty() {
                None
            } else {
                Some((f.clone(), d))
            }
        })
        .collect();
    (fens.len() as u64, bad)
}

/// Clock values FEN cannot carry (up to the 16-bit limit) are installed through the builder on
/// rights-free positions; every legal move is then applied and the successor's clocks, placement
/// and side to move are compared with the reference (C02 quantifies over clock values below the
/// 16-bit limit, i.e. successors up to 65535).
pub fn c02_extreme_clocks() -> (u64, Vec<(String, Vec<Divergence>)>) {
    use chess_movegen::Board;
    let mut n = 0u64;
    let mut out = vec![];
    let fens = [
        "4k3/8/8/8/8/8/4P3/4K2R w - - 0 1",
        "4k2r/4p3/8/8/8/8/8/4K3 b - - 0 1",
        "7k/8/8/3pP3/8/8/8/K7 w - d6 0 1",
        "1n5k/P7/8/8/8/8/8/K7 w - - 0 1",
        "r3k3/8/8/8/8/8/8/4K2R b - - 0 1",
        // officer captures (reset the half-move clock) next to quiet officer moves (count on)
        "4k3/8/8/8/8/7r/8/4K2R b - - 0 1",
        "4k2r/8/7R/8/8/8/8/4K3 w - - 0 1",
        "4k3/8/8/8/8/5n2/8/4K1N1 w - - 0 1",
    ];
    for f in fens {
        let base = Position::from_fen(f).unwrap();
        for (half, full) in [(9999u32, 9999u32), (10000, 10000), (32767, 32768), (65533, 65533), (65534, 65534), (65534, 0), (0, 65534), (99, 65534), (100, 40000)] {
            let mut rp = base.clone();
            rp.half = half;
            rp.full = full;
            let mut bld = Board::builder();
            bld.turn(real_color(rp.turn)).half_move_clock(half as u16).full_move_clock(full as u16);
            bld.enpassant(rp.ep.map(|x| chess_bitboard::File::from_u8(x as u8).unwrap()));
            for s in 0..64u8 {
                if let Some((c, p)) = rp.at(s) {
                    let _ = bld.place(pos(s), real_color(c), real_piece(p));
                }
            }
            let Ok(board) = bld.build() else {
                out.push((format!("{f} {half} {full}"), vec![Divergence::new("builder-rejects-valid-position", format!("{f} with clocks {half}/{full}"))]));
                continue;
            };
            let mut d = vec![];
            for m in rp.legal_moves() {
                let want = rp.make(m);
                if want.half > 65535 || want.full > 65535 {
                    continue;
                }
                n += 1;
                match board.move_new(real_mv(m)) {
                    None => d.push(Divergence::new("move_new-refuses-legal:extreme-clocks", format!("{f} clocks {half}/{full}: {}", m.uci()))),
                    Some(c) => {
                        if c.half_move_clock() as u32 != want.half {
                            d.push(Divergence::new("wrong-successor:half-move-clock:extreme-values", format!("{f} half-move {half}, after {}: {} (rules: {})", m.uci(), c.half_move_clock(), want.half)));
                        }
                        if c.full_move_clock() as u32 != want.full {
                            d.push(Divergence::new("wrong-successor:full-move-clock:extreme-values", format!("{f} full-move {full}, after {}: {} (rules: {})", m.uci(), c.full_move_clock(), want.full)));
                        }
                        // the other two checked operations give the same board and clocks
                        let mut by_mut = board;
                        let ok_mut = by_mut.move_mut(real_mv(m));
                        let mut by_into = Board::standard();
                        let ok_into = board.move_into(real_mv(m), &mut by_into);
                        for (name, ok, b2) in [("move_mut", ok_mut, by_mut), ("move_into", ok_into, by_into)] {
                            if !ok || b2 != c || b2.half_move_clock() != c.half_move_clock() || b2.full_move_clock() != c.full_move_clock() || b2.zobrist() != c.zobrist() {
                                d.push(Divergence::new(format!("{name}-differs-from-move_new:extreme-clocks"), format!("{f} clocks {half}/{full}, {}: accepted={ok}, clocks {}/{} vs {}/{}", m.uci(), b2.half_move_clock(), b2.full_move_clock(), c.half_move_clock(), c.full_move_clock())));
                            }
                        }
                        let mut got = read_back(&c);
                        got.half = want.half;
                        got.full = want.full;
                        if let Some(diff) = diff_position(&got, &want) {
                            d.push(Divergence::new("wrong-successor:extreme-clocks", format!("{f} clocks {half}/{full} after {}: {diff}", m.uci())));
                        }
                    }
                }
            }
            if !d.is_empty() {
                out.push((format!("{f} {half} {full}"), d));
            }
        }
    }
    (n, out)
}

/// builder call sequences that must end in the same board as the parser: plain, with a rejected
/// placement on an occupied square in the middle, with remove + re-place, with a placed-then-removed
/// extra piece; compared by Eq, hash, clocks, text and Debug rendering
fn c05_builder_sequences(d: &mut Vec<Divergence>) -> u64 {
    use chess_bitboard::{Color, Piece};
    use chess_movegen::Board;
    let (roots, _) = all_roots();
    let mut n = 0;
    for r in roots {
        if r.pos.rights.iter().any(|x| *x) {
            continue;
        }
        let fen = r.pos.to_fen();
        let Ok(twin) = parse_board(&fen) else { continue };
        let squares: Vec<u8> = (0..64u8).filter(|s| r.pos.at(*s).is_some()).collect();
        let empty: Vec<u8> = (0..64u8).filter(|s| r.pos.at(*s).is_none()).collect();
        for variant in 0..5 {
            n += 1;
            let mut bld = Board::builder();
            bld.turn(real_color(r.pos.turn)).half_move_clock(r.pos.half as u16).full_move_clock(r.pos.full as u16);
            bld.enpassant(r.pos.ep.map(|f| chess_bitboard::File::from_u8(f as u8).unwrap()));
            let order: Vec<u8> = if variant == 4 { squares.iter().rev().copied().collect() } else { squares.clone() };
            for (i, &s) in order.iter().enumerate() {
                let (c, p) = r.pos.at(s).unwrap();
                let _ = bld.place(pos(s), real_color(c), real_piece(p));
                match variant {
                    // a rejected placement on the square just filled
                    1 if i % 3 == 0 => {
                        if bld.place(pos(s), Color::Black, Piece::Queen).is_ok() {
                            d.push(Divergence::new("builder-accepts-placement-on-occupied-square", fen.clone()));
                        }
                    }
                    // remove and put back
                    2 if i % 2 == 0 => {
                        bld.remove(pos(s));
                        let _ = bld.place(pos(s), real_color(c), real_piece(p));
                    }
                    // an extra piece placed on an empty square and removed again; removing an empty square
                    3 if i == 1 => {
                        if let Some(&e) = empty.first() {
                            let _ = bld.place(pos(e), Color::White, Piece::Knight);
                            bld.remove(pos(e));
                            if let Some(&e2) = empty.last() {
                                bld.remove(pos(e2));
                            }
                        }
                    }
                    _ => {}
                }
            }
            match bld.build() {
                Ok(b) => {
                    if b != twin || b.zobrist() != twin.zobrist() || b.half_move_clock() != twin.half_move_clock() || b.full_move_clock() != twin.full_move_clock() || b.to_string() != twin.to_string() || format!("{b:?}") != format!("{twin:?}") {
                        let what = if b.zobrist() != twin.zobrist() { "hash" } else { "board-or-derived-state" };
                        d.push(Divergence::new(
                            format!("builder-sequence-differs-from-parser:{what}:variant-{variant}"),
                            format!("{fen}: builder call sequence variant {variant} (1 = rejected placement, 2 = remove + re-place, 3 = extra piece placed and removed, 4 = reverse order) gives a board that differs from the parsed one"),
                        ));
                    }
                }
                Err(e) => d.push(Divergence::new("builder-rejects-position-the-parser-accepts", format!("{fen}: {e:?}"))),
            }
        }
    }
    n
}

/// standard() vs parser vs builder
pub fn c05_constructors() -> Vec<Divergence> {
    use chess_movegen::Board;
    let mut d = vec![];
    let std = Board::standard();
    let parsed = parse_board(START_FEN);
    match parsed {
        Ok(p) => {
            if p != std || p.zobrist() != std.zobrist() || format!("{p:?}") != format!("{std:?}") || p.to_string() != std.to_string() {
                d.push(Divergence::new("standard-differs-from-parsed", "Board::standard() != parse(standard FEN)"));
            }
        }
        Err(e) => d.push(Divergence::new("standard-fen-rejected", e)),
    }
    let rp = Position::from_fen(START_FEN).unwrap();
    if let Some(diff) = diff_position(&read_back(&std), &rp) {
        d.push(Divergence::new("standard-wrong", diff));
    }
    // builder vs parser on rights-free positions (the builder's rights type cannot be named
    // from outside the crate): every scenario root and perft root without castling rights
    let (roots, _) = all_roots();
    for r in roots {
        if r.pos.rights.iter().any(|x| *x) {
            continue;
        }
        let mut bld = Board::builder();
        bld.turn(real_color(r.pos.turn));
        bld.half_move_clock(r.pos.half as u16);
        bld.full_move_clock(r.pos.full as u16);
        bld.enpassant(r.pos.ep.map(|f| chess_bitboard::File::from_u8(f as u8).unwrap()));
        for s in 0..64u8 {
            if let Some((c, p)) = r.pos.at(s) {
                if bld.place(pos(s), real_color(c), real_piece(p)).is_err() {
                    d.push(Divergence::new("builder-place-failed", r.pos.to_fen()));
                }
            }
        }
        let fen = r.pos.to_fen();
        match (bld.build(), parse_board(&fen)) {
            (Ok(a), Ok(b)) => {
                if a != b
                    || a.zobrist() != b.zobrist()
                    || a.half_move_clock() != b.half_move_clock()
                    || a.full_move_clock() != b.full_move_clock()
                    || format!("{a:?}") != format!("{b:?}")
                    || a.to_string() != b.to_string()
                {
                    d.push(Divergence::new("builder-differs-from-parser", format!("{fen}: builder and parser produce different boards")));
                }
            }
            (a, b) => {
                if a.is_ok() != b.is_ok() {
                    d.push(Divergence::new("builder-and-parser-disagree-on-acceptance", format!("{fen}: builder ok={} parser ok={}", a.is_ok(), b.is_ok())));
                }
            }
        }
    }
    let _ = c05_builder_sequences(&mut d);
    d
}

// ---------------------------------------------------------------- second oracle

/// The reference model is cross-checked against shakmaty (an unrelated, production-grade rules
/// library that happens to be in the cargo cache): legal move sets, check flag and successor
/// position must agree on every state of a BFS from every root.  A disagreement between the
/// two *oracles* is a machinery failure, never a verdict about the repository.
pub fn cross_check_oracles(deep: bool) {
    use shakmaty::{fen::Fen, CastlingMode, Chess, EnPassantMode, Position as _};
    use std::collections::BTreeSet;
    let (roots, _) = all_roots();
    let mut states = 0u64;
    for root in &roots {
        let depth = if root.name.starts_with("start") { if deep { 4 } else { 3 } } else if deep { 3 } else { 2 };
        let mut frontier = vec![root.pos.clone()];
        let mut seen = BTreeSet::new();
        for _ in 0..=depth {
            let mut next = vec![];
            for p in &frontier {
                if !seen.insert(p.identity()) {
                    continue;
                }
                states += 1;
                let mut q = p.clone();
                q.full = q.full.max(1);
                let fen = q.to_fen();
                let sp: Chess = match fen.parse::<Fen>().ok().and_then(|f| f.into_position(CastlingMode::Standard).ok()) {
                    Some(s) => s,
                    None => machinery_failure(&format!("second oracle rejects '{fen}' which the reference considers a valid reachable position")),
                };
                let ours: BTreeSet<String> = p.legal_moves().iter().map(|m| m.uci()).collect();
                let theirs: BTreeSet<String> = sp.legal_moves().iter().map(|m| m.to_uci(CastlingMode::Standard).to_string()).collect();
                if ours != theirs {
                    machinery_failure(&format!("oracles disagree on the legal moves of '{fen}': reference {ours:?} vs shakmaty {theirs:?}"));
                }
                if sp.is_check() != p.in_check() {
                    machinery_failure(&format!("oracles disagree on check in '{fen}'"));
                }
                for m in sp.legal_moves() {
                    let u = m.to_uci(CastlingMode::Standard).to_string();
                    let child = sp.clone().play(&m).unwrap();
                    let cf = Fen::from_position(child, EnPassantMode::Always).to_string();
                    let ours_child = q.make(refchess::Mv::parse(&u).unwrap());
                    if ours_child.to_fen() != cf {
                        machinery_failure(&format!("oracles disagree on the successor of '{fen}' by {u}: reference '{}' vs shakmaty '{cf}'", ours_child.to_fen()));
                    }
                    next.push(p.make(refchess::Mv::parse(&u).unwrap()));
                }
            }
            frontier = next;
        }
    }
    println!("oracle cross-check: reference == shakmaty on {states} states");
}
