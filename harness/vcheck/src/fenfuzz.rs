//! C06: FEN parsing is total and admits only playable positions.
//! The input space is unbounded, so the bound is *deviations from well-formed input*: every
//! single edit (all 256 byte values) and every double edit (over an alphabet with one
//! representative per parser match arm) of every seed, every short string over that alphabet,
//! complete field-spelling products, and builder call sequences.

use crate::common::*;
use crate::roots::*;
use crate::Args;
use chess_bitboard::File;
use chess_movegen::Board;
use rayon::prelude::*;
use refchess::Position;
use serde_json::{json, Value};
use std::sync::atomic::{AtomicU64, Ordering};

/// one representative per match arm of the parser
pub const ALPHABET: &[u8] = b"PpKkRrQn0189/ -wbahi364\x00\x7f\x80\xff";

fn hex(b: &[u8]) -> String {
    b.iter().map(|x| format!("{x:02x}")).collect()
}
fn unhex(s: &str) -> Vec<u8> {
    (0..s.len() / 2).map(|i| u8::from_str_radix(&s[2 * i..2 * i + 2], 16).unwrap()).collect()
}

/// when set (C07 worker), every accepted board is also driven through the safe API
pub static EXERCISE: std::sync::atomic::AtomicBool = std::sync::atomic::AtomicBool::new(false);

/// all safe operations on an accepted position, two plies deep
pub fn exercise(b: &Board, depth: u32) -> u64 {
    let mut n = 1;
    let _ = b.to_string();
    let _ = format!("{b:?}");
    let _ = b.zobrist();
    let _ = b.state();
    let _ = b.in_check();
    let _ = b.king_sq(chess_bitboard::Color::White);
    let _ = b.king_sq(chess_bitboard::Color::Black);
    let _ = b.king_legals(chess_bitboard::Color::White).len();
    let _ = b.king_legals(chess_bitboard::Color::Black).len();
    let _ = b.king_legals(chess_bitboard::Color::White).count();
    let _ = b.king_legals(chess_bitboard::Color::Black).count();
    // every formatting trait of the board, its raw board and its bitboards ("printing")
    let _ = format!("{b:#?}");
    let r = b.raw();
    let _ = format!("{r:?}{r:#?}{r:b}{r:x}{r:X}{r:#b}{r:#x}");
    for p in chess_bitboard::Piece::all() {
        let bb = b[p];
        let _ = format!("{bb:?}{bb:#?}{bb:b}{bb:x}{bb:X}");
        let _ = r[p];
    }
    {
        use std::hash::{Hash, Hasher};
        let mut h = std::collections::hash_map::DefaultHasher::new();
        b.hash(&mut h);
        let _ = h.finish();
    }
    let mut it = b.legals();
    let _ = it.len();
    let _ = it.size_hint();
    it.set_mask(b[!b.turn()]);
    let _ = it.len();
    let _ = b.legals_masked(b[!b.turn()]).count();
    // masked iteration drained, the mutators, the king's own generator stepped, the checked move
    // operations on a legal and on an illegal move
    {
        let all: Vec<chess_movegen::ChessMove> = b.legals().collect();
        let mut it = b.legals_masked(b[!b.turn()]);
        let mut k = 0;
        while it.next().is_some() && k < 300 {
            k += 1;
        }
        it.set_mask(!chess_bitboard::BitBoard::empty());
        let _ = it.len();
        while it.next().is_some() && k < 600 {
            k += 1;
        }
        if let (Some(&first), Some(&last)) = (all.first(), all.last()) {
            let mut it = b.legals();
            let _ = it.next();
            let _ = it.remove_move(last);
            it.remove(chess_bitboard::BitBoard::from_pos(first.dest));
            let _ = it.remove_move(first);
            let _ = (it.len(), it.is_empty(), it.size_hint());
            let _ = it.clone().count();
            while it.next().is_some() && k < 900 {
                k += 1;
            }
            let mut copy = *b;
            let _ = copy.move_mut(first);
            let mut buffer = *b;
            let _ = b.move_into(last, &mut buffer);
            // an illegal triple: the first move's source to its own square, and a promotion piece on it
            let bad = chess_movegen::ChessMove { source: first.source, dest: first.source, piece: None };
            let bad2 = chess_movegen::ChessMove { source: first.source, dest: first.dest, piece: if first.piece.is_some() { None } else { Some(chess_bitboard::PromotionPiece::Queen) } };
            let _ = (b.is_legal(bad), b.is_legal(bad2), b.move_new(bad).is_some(), copy.move_mut(bad2), b.move_into(bad, &mut buffer));
        }
        for c in [chess_bitboard::Color::White, chess_bitboard::Color::Black] {
            let mut it = b.king_legals(c);
            while it.next().is_some() && k < 1000 {
                k += 1;
            }
        }
    }
    for m in b.legals() {
        if let Some(c) = b.move_new(m) {
            if depth > 0 {
                n += exercise(&c, depth - 1);
            }
        }
    }
    n
}

/// the text entry point (`str::parse::<Board>()`, what the CLI argument and the WASM constructor
/// call) on the same input: no panic, and the same answer as the byte parser
fn c06_text_entry(input: &[u8], bytes_result: &Result<Board, chess_movegen::fen::ParseFenError>) -> Vec<Divergence> {
    let Ok(text) = std::str::from_utf8(input) else { return vec![] };
    match std::panic::catch_unwind(|| text.parse::<Board>()) {
        Err(_) => vec![Divergence::new("parser-panics", format!("{text:?}.parse::<Board>() panicked (0x{})", hex(input)))],
        Ok(r) => {
            // the text entry may be more lenient or stricter than the byte parser (trimming, ...); what
            // the property asks of it is totality and playable boards - and when both accept, the same board
            match (&r, bytes_result) {
                (Ok(a), Ok(b)) => {
                    if a == b && a.zobrist() == b.zobrist() && a.half_move_clock() == b.half_move_clock() && a.full_move_clock() == b.full_move_clock() {
                        vec![]
                    } else {
                        vec![Divergence::new("text-entry-point-disagrees-with-byte-parser", format!("{text:?}: both entry points accept but return different boards"))]
                    }
                }
                (Ok(a), Err(_)) => accepted_board_invariants(a, &format!("{text:?}.parse::<Board>()")),
                _ => vec![],
            }
        }
    }
}

pub fn c06_case(input: &[u8]) -> Vec<Divergence> {
    set_case(|| json!({"property": "C06", "case": {"kind": "bytes", "hex": hex(input)}}).to_string());
    let r = std::panic::catch_unwind(|| chess_movegen::fen::parse_fen(input));
    if let Ok(res) = &r {
        let d = c06_text_entry(input, res);
        if !d.is_empty() {
            return d;
        }
    }
    match r {
        Err(_) => vec![Divergence::new("parser-panics", format!("parse_fen(0x{} = {:?}) panicked", hex(input), String::from_utf8_lossy(input)))],
        Ok(Err(e)) => {
            // the error's own printing is part of the safe API
            if EXERCISE.load(Ordering::Relaxed) && std::panic::catch_unwind(|| (format!("{e}{e:?}{e:#?}"), std::error::Error::source(&e).is_some())).is_err() {
                return vec![Divergence::new("parser-panics", format!("formatting the error of parse_fen(0x{}) panicked", hex(input)))];
            }
            vec![]
        }
        Ok(Ok(b)) => {
            let mut d = accepted_board_invariants(&b, &format!("parse_fen({:?})", String::from_utf8_lossy(input)));
            if EXERCISE.load(Ordering::Relaxed) {
                if std::panic::catch_unwind(|| exercise(&b, 1)).is_err() {
                    d.push(Divergence::new("accepted-position-crashes-safe-api", format!("{:?}", String::from_utf8_lossy(input))));
                }
            }
            d
        }
    }
}

pub fn accepted_board_invariants(b: &Board, how: &str) -> Vec<Divergence> {
    let p = read_back(b);
    match p.playable() {
        Ok(()) => vec![],
        Err(e) => {
            let class = if e.contains("kings") {
                "accepted-without-exactly-one-king-per-side"
            } else if e.contains("16") {
                "accepted-with-more-than-16-pieces"
            } else if e.contains("in check") {
                "accepted-with-side-not-to-move-in-check"
            } else if e.contains("castling right K") {
                "accepted-castling-right-K-without-king-and-rook-home"
            } else if e.contains("castling right") {
                "accepted-castling-right-without-king-and-rook-home"
            } else {
                "accepted-with-bad-en-passant-marker"
            };
            vec![Divergence::new(class, format!("{how} accepted as '{}': {e}", p.to_fen()))]
        }
    }
}

fn seeds() -> Vec<String> {
    let mut v: Vec<String> = vec![START_FEN.to_string()];
    v.extend(PERFT_FENS.iter().map(|s| s.to_string()));
    v.extend(EXTRA_FENS.iter().map(|s| s.to_string()));
    for s in load_scenarios() {
        v.push(s.fen);
    }
    v.extend(
        [
            "4k3/8/8/8/8/8/8/4K3 w - - 9999 9999",
            "r3k2r/8/8/8/8/8/8/R3K2R w Kq - 12 345",
            "r3k2r/8/8/8/8/8/8/R3K2R b Qk - 0 10",
            "rnbqkbnr/pppp1ppp/8/4p3/4P3/8/PPPP1PPP/RNBQKBNR w KQkq e6 0 2",
            "rnbqkbnr/pppppppp/8/8/4P3/8/PPPP1PPP/RNBQKBNR b KQkq e3 0 1",
            "8/8/8/8/8/8/8/K1k5 w - - 0 1",
            "QQQQQQQQ/QQQQQQQ1/8/8/8/8/8/K1k5 w - - 0 1",
        ]
        .iter()
        .map(|s| s.to_string()),
    );
    v.sort();
    v.dedup();
    v
}

#[derive(Clone, Copy)]
enum Edit {
    Sub(usize, u8),
    Del(usize),
    Ins(usize, u8),
}

fn apply(seed: &[u8], e: Edit, out: &mut Vec<u8>) {
    out.clear();
    match e {
        Edit::Sub(i, b) => {
            out.extend_from_slice(seed);
            out[i] = b;
        }
        Edit::Del(i) => {
            out.extend_from_slice(&seed[..i]);
            out.extend_from_slice(&seed[i + 1..]);
        }
        Edit::Ins(i, b) => {
            out.extend_from_slice(&seed[..i]);
            out.push(b);
            out.extend_from_slice(&seed[i..]);
        }
    }
}

fn edits(len: usize, alphabet: &[u8]) -> Vec<Edit> {
    let mut v = vec![];
    for i in 0..len {
        for &b in alphabet {
            v.push(Edit::Sub(i, b));
        }
        v.push(Edit::Del(i));
    }
    for i in 0..=len {
        for &b in alphabet {
            v.push(Edit::Ins(i, b));
        }
    }
    v
}

struct Counters {
    parses: AtomicU64,
    accepted: AtomicU64,
}

fn run_case(input: &[u8], report: &Report, c: &Counters) {
    c.parses.fetch_add(1, Ordering::Relaxed);
    let d = c06_case(input);
    // count acceptance cheaply (a second parse would double the cost; an Ok with no divergence
    // is the common accepted case, so count through a direct call only when d is empty)
    if d.is_empty() {
        if let Ok(Ok(_)) = std::panic::catch_unwind(|| chess_movegen::fen::parse_fen(input)) {
            c.accepted.fetch_add(1, Ordering::Relaxed);
        }
    } else {
        c.accepted.fetch_add(1, Ordering::Relaxed);
        report.record(&d, || json!({"kind": "bytes", "hex": hex(input)}));
    }
}

pub fn run_c06(args: &Args) -> i32 {
    let report = Report::new("C06", args.tier, args.seed, "exploration");
    silence_panics();
    let seeds = seeds();
    let c = Counters { parses: AtomicU64::new(0), accepted: AtomicU64::new(0) };
    let all_bytes: Vec<u8> = (0..=255u8).collect();
    let quick = args.tier == Tier::Quick;

    // 1. single edits with all 256 byte values, every prefix, one trailing byte
    seeds.par_iter().for_each(|seed| {
        let s = seed.as_bytes();
        let mut buf = Vec::with_capacity(s.len() + 2);
        for e in edits(s.len(), &all_bytes) {
            apply(s, e, &mut buf);
            run_case(&buf, &report, &c);
        }
        for k in 0..=s.len() {
            run_case(&s[..k], &report, &c);
        }
    });
    // 1b. multi-byte characters (2, 3 and 4 UTF-8 bytes) substituted for 1..=4 bytes and inserted at
    // every byte offset of every seed, alone and behind short ASCII prefixes: the text entry point
    // must survive input whose character boundaries do not fall where ASCII would put them
    seeds.par_iter().for_each(|seed| {
        let s = seed.as_bytes();
        for ch in ["\u{e9}", "\u{20ac}", "\u{2654}", "\u{1f600}"] {
            let cb = ch.as_bytes();
            for i in 0..=s.len() {
                for del in 0..=4usize {
                    if i + del > s.len() {
                        break;
                    }
                    let mut buf = Vec::with_capacity(s.len() + 4);
                    buf.extend_from_slice(&s[..i]);
                    buf.extend_from_slice(cb);
                    buf.extend_from_slice(&s[i + del..]);
                    run_case(&buf, &report, &c);
                }
            }
        }
    });
    for ch in ["\u{e9}", "\u{20ac}", "\u{2654}", "\u{1f600}"] {
        for pre in ["", "a", "ab", "abc", "abcd", "fen", "fen ", "8/8", "w ", "- "] {
            for post in ["", "y", " w - - 0 1"] {
                let t = format!("{pre}{ch}{post}");
                run_case(t.as_bytes(), &report, &c);
                let t2 = format!("{pre}{ch}{ch}{post}");
                run_case(t2.as_bytes(), &report, &c);
            }
        }
    }
    let single = c.parses.load(Ordering::Relaxed);
    eprintln!("[C06] single edits done: {single} parses, {:.1}s", report.start.elapsed().as_secs_f64());

    let light = std::env::var("VCHECK_C06_LIGHT").is_ok();
    // 2. double edits over the representative alphabet
    let n_double_seeds = if light { 0 } else if reduced() { 3 } else if quick { 30.min(seeds.len()) } else { seeds.len() };
    // quick picks the seeds with the richest field shapes first (rights, ep, clocks)
    let mut ranked: Vec<&String> = seeds.iter().collect();
    ranked.sort_by_key(|s| (!(s.contains("KQkq") || s.contains(" e3 ") || s.contains(" e6 ") || s.contains(" d6 ") || s.contains("9999")), s.len()));
    ranked[..n_double_seeds].par_iter().for_each(|seed| {
        let s = seed.as_bytes();
        let first = edits(s.len(), ALPHABET);
        first.par_iter().for_each(|&e1| {
            let mut mid = Vec::with_capacity(s.len() + 2);
            let mut buf = Vec::with_capacity(s.len() + 3);
            apply(s, e1, &mut mid);
            for e2 in edits(mid.len(), ALPHABET) {
                apply(&mid, e2, &mut buf);
                run_case(&buf, &report, &c);
            }
        });
    });
    let double = c.parses.load(Ordering::Relaxed) - single;
    eprintln!("[C06] double edits done: {double} parses, {:.1}s", report.start.elapsed().as_secs_f64());

    // 3. every string of length <= L over the alphabet
    let maxlen = if light { 3 } else if reduced() { 4 } else if quick { 5 } else { 6 };
    let k = ALPHABET.len() as u64;
    for len in 0..=maxlen {
        let total = k.pow(len as u32);
        (0..total).into_par_iter().for_each(|mut idx| {
            let mut s = [0u8; 8];
            for i in 0..len {
                s[i] = ALPHABET[(idx % k) as usize];
                idx /= k;
            }
            run_case(&s[..len], &report, &c);
        });
    }
    let short = c.parses.load(Ordering::Relaxed) - single - double;
    eprintln!("[C06] short strings done: {short} parses, {:.1}s", report.start.elapsed().as_secs_f64());

    // 4. complete products of field spellings on three placements
    let placements = ["r3k2r/8/8/3pP3/3Pp3/8/8/R3K2R", "4k3/8/8/8/8/8/4R3/4K3", "4k3/8/8/8/8/8/8/4K3", "rnbqkbnr/pppppppp/8/8/8/8/PPPPPPPP/RNBQKBN1"];
    let turns = ["w", "b", "W", "", "x"];
    let rights = ["-", "K", "Q", "k", "q", "KQ", "Kk", "Qq", "KQkq", "QK", "kK", "KK", "", "KQkq-", "-K", "Kq"];
    let eps = ["-", "a3", "d3", "e3", "h3", "a6", "d6", "e6", "h6", "e4", "e5", "i3", "e", "3e", "E6", ""];
    let halfs = ["0", "1", "50", "99", "100", "9999", "10000", "99999", "00000", "", "-1", "1a"];
    let fulls = ["0", "1", "9999", "10000", "65535", "65536", "", " ", "1 ", "1  x"];
    let mut products: Vec<String> = vec![];
    for pl in placements {
        for t in turns {
            for r in rights {
                for e in eps {
                    for h in halfs {
                        for f in fulls {
                            products.push(format!("{pl} {t} {r} {e} {h} {f}"));
                        }
                    }
                }
            }
        }
    }
    // 4b. the whole domain of the castling-rights validation: every occupant of the six home
    //     squares (empty, either king, either rook, a queen) x every rights subset x both turns
    if !reduced() {
        let occ: [Option<char>; 6] = [None, Some('K'), Some('k'), Some('R'), Some('r'), Some('Q')];
        let homes = [4usize, 60, 0, 7, 56, 63]; // e1 e8 a1 h1 a8 h8
        for code in 0..6usize.pow(6) {
            let mut board: [Option<char>; 64] = [None; 64];
            let mut c = code;
            for h in homes {
                board[h] = occ[c % 6];
                c /= 6;
            }
            // make sure each side has a king somewhere harmless when none is on a home square
            if !board.iter().any(|x| *x == Some('K')) {
                board[27] = Some('K'); // d4
            }
            if !board.iter().any(|x| *x == Some('k')) {
                board[45] = Some('k'); // f6
            }
            let mut placement = String::new();
            for rank in (0..8).rev() {
                let mut empty = 0;
                for file in 0..8 {
                    match board[rank * 8 + file] {
                        Some(ch) => {
                            if empty > 0 {
                                placement.push_str(&empty.to_string());
                                empty = 0;
                            }
                            placement.push(ch);
                        }
                        None => empty += 1,
                    }
                }
                if empty > 0 {
                    placement.push_str(&empty.to_string());
                }
                if rank > 0 {
                    placement.push('/');
                }
            }
            for r in 1..16u8 {
                let mut rs = String::new();
                for (i, ch) in ['K', 'Q', 'k', 'q'].iter().enumerate() {
                    if r & (1 << i) != 0 {
                        rs.push(*ch);
                    }
                }
                for t in ["w", "b"] {
                    products.push(format!("{placement} {t} {rs} - 0 1"));
                }
            }
        }
        // 4c. the whole domain of the en-passant validation: marker file x occupants of the origin,
        //     skipped and pawn squares (empty, either pawn, either knight) x both turns x both marker ranks
        let eocc: [Option<char>; 5] = [None, Some('P'), Some('p'), Some('N'), Some('n')];
        for f in 0..8usize {
            for code in 0..5usize.pow(6) {
                // ranks 2,3,4 and 5,6,7 of file f
                let mut col: [Option<char>; 8] = [None; 8];
                let mut c = code;
                for r in [1usize, 2, 3, 4, 5, 6] {
                    col[r] = eocc[c % 5];
                    c /= 5;
                }
                let mut rows: Vec<String> = vec![];
                for rank in (0..8).rev() {
                    let mut row = String::new();
                    let mut empty = 0;
                    for file in 0..8 {
                        let ch = if file == f { col[rank] } else if rank == 0 && file == (f + 4) % 8 { Some('K') } else if rank == 7 && file == (f + 4) % 8 { Some('k') } else { None };
                        match ch {
                            Some(x) => {
                                if empty > 0 {
                                    row.push_str(&empty.to_string());
                                    empty = 0;
                                }
                                row.push(x);
                            }
                            None => empty += 1,
                        }
                    }
                    if empty > 0 {
                        row.push_str(&empty.to_string());
                    }
                    rows.push(row);
                }
                let placement = rows.join("/");
                let file_ch = (b'a' + f as u8) as char;
                for (t, rank) in [("w", '6'), ("b", '3')] {
                    products.push(format!("{placement} {t} - {file_ch}{rank} 0 1"));
                }
            }
        }
    }
    products.par_iter().for_each(|p| run_case(p.as_bytes(), &report, &c));
    let prod = products.len() as u64;
    eprintln!("[C06] field products done: {prod} parses, {:.1}s", report.start.elapsed().as_secs_f64());

    // 5. canonical FENs of reachable positions must be accepted (and parse to that position)
    let (roots, _) = all_roots();
    let depth = if quick { 2 } else { 3 };
    let reach: Vec<(u64, Vec<(String, Vec<Divergence>)>)> = roots
        .par_iter()
        .map(|root| {
            let mut n = 0u64;
            let mut bad = vec![];
            let mut frontier = vec![root.pos.clone()];
            let mut seen = std::collections::BTreeSet::new();
            for _ in 0..=depth {
                let mut next = vec![];
                for p in &frontier {
                    if !seen.insert(p.identity()) {
                        continue;
                    }
                    n += 1;
                    let fen = p.to_fen();
                    let d = c06_reachable_case(&fen);
                    if !d.is_empty() {
                        bad.push((fen, d));
                    }
                    for m in p.legal_moves() {
                        let c = p.make(m);
                        // clock values above 9999 are outside the properties' quantifier
                        if c.full <= 9999 && c.half <= 9999 {
                            next.push(c);
                        }
                    }
                }
                frontier = next;
            }
            (n, bad)
        })
        .collect();
    let mut reach_n = 0;
    for (n, bad) in reach {
        reach_n += n;
        for (fen, d) in bad {
            report.record(&d, || json!({"kind": "reachable", "fen": fen}));
        }
    }
    // 5a. promotion-heavy but legally reachable material, and the longest possible texts
    for f in PROMOTED_MATERIAL.iter().map(|s| s.to_string()).chain(LONG_PLACEMENTS.iter().flat_map(|p| ["w KQkq - 9999 9999", "b - - 0 1"].iter().map(move |t| format!("{p} {t}")))) {
        reach_n += 1;
        let d = c06_reachable_case(&f);
        report.record(&d, || json!({"kind": "reachable", "fen": f}));
    }
    // 5b. every member of the small-material families (both colours) is a playable position whose
    //     canonical FEN must be accepted and parse to that position
    {
        use crate::explore::{family_positions, Family};
        let fams: Vec<(Family, u8)> = if quick || reduced() || light {
            vec![(Family::Three, 0), (Family::PawnPush, 0), (Family::PromoPin, 0), (Family::EpCheck, 0), (Family::Castle, 0)]
        } else {
            vec![(Family::Three, 0), (Family::PawnPush, 1), (Family::PromoPin, 0), (Family::EpCheck, 1), (Family::PromoCheck, 1), (Family::Castle, 1), (Family::Ep, 1), (Family::Promo, 1)]
        };
        for (fam, level) in fams {
            let members = family_positions(fam, level);
            let bad: Vec<(String, Vec<Divergence>)> = members
                .par_iter()
                .flat_map_iter(|base| {
                    let mut out = vec![];
                    for p in [base.clone(), base.mirror()] {
                        if p.valid_root().is_err() {
                            continue;
                        }
                        let fen = p.to_fen();
                        let d = c06_reachable_case(&fen);
                        if !d.is_empty() {
                            out.push((fen, d));
                        }
                    }
                    out
                })
                .collect();
            reach_n += 2 * members.len() as u64;
            for (fen, d) in bad {
                report.record(&d, || json!({"kind": "reachable", "fen": fen}));
            }
        }
    }
    eprintln!("[C06] reachable FENs done: {reach_n}, {:.1}s", report.start.elapsed().as_secs_f64());

    // 6. builder call sequences
    let (builds, built_ok) = if light { (0, 0) } else { builder_sequences(&report, quick) };
    // 7. totality again in the trapping build flavour (overflow checks, debug assertions): the
    //    single edits, field products and reachable FENs are parsed by a worker process of the
    //    `checked` binary; a panic located in the repository is a violation of "never panics"
    let mut trapped_parses = 0u64;
    if !is_worker() {
        let (n, crashes) = crate::crash::trapping_pass(&["worker", "C06", "--tier", "quick"], &[("VCHECK_C06_LIGHT", "1")]);
        trapped_parses = n;
        for (class, detail, case) in crashes {
            report.record(&[Divergence::new(format!("parser-panics-in-trapping-build:{class}"), detail)], || json!({"kind": "crash", "driver": "C06", "worker_case": case}));
        }
    }
    eprintln!("[C06] builder done: {builds} sequences, {:.1}s", report.start.elapsed().as_secs_f64());
    restore_panics();

    let parses = c.parses.load(Ordering::Relaxed);
    let accepted = c.accepted.load(Ordering::Relaxed);
    let si = (args.seed as usize) % seeds.len();
    let mut sample = seeds[si].as_bytes().to_vec();
    let at = (args.seed as usize * 31 + 7) % sample.len();
    sample[at] = b'9';
    report.finish(
        json!({
            "evaluations": parses + reach_n + builds,
            "distinct_nontrivial": accepted + built_ok,
            "rule": "seeds = every catalogue FEN + field-shape seeds; (1) all single edits with all 256 byte values (substitute, delete, insert), every prefix; 2-, 3- and 4-byte UTF-8 characters substituted for 0-4 bytes at every offset of every seed and behind short prefixes; every valid-UTF-8 input also goes through str::parse::<Board>() (the CLI / WASM entry), which must not panic, must return playable boards, and must return the same board whenever both entry points accept; (2) all double edits over a 28-symbol alphabet holding one representative per parser match arm (quick: 30 richest seeds, thorough: all seeds); (3) every string of length <= 5 (thorough 6) over that alphabet; (4) complete product of valid/invalid spellings per field on 4 placements, the complete domain of the castling-rights validation (every occupant of e1 e8 a1 h1 a8 h8 out of {empty, either king, either rook, queen} x 15 rights subsets x both turns) and of the en-passant validation (marker file x every occupancy of the six squares of that file on ranks 2-7 out of {empty, either pawn, either knight} x both turns); (5) canonical FEN of every position reachable within depth 2 (thorough 3) of every root, and of every member of the small-material families (kings + one piece, pawn pushes, promotion pins, en-passant and castling families, both colours), must be accepted and parse to that position; (6) builder call sequences, the short ones followed by four re-uses of the same builder (turn / en-passant setters only, then build() again) compared with a fresh builder. Non-trivial = inputs the parser/builder ACCEPTED (the C06 invariants are evaluated on each of them); rejected inputs only exercise totality.",
            "seeds": seeds.len(),
            "single_edit_parses": single, "double_edit_parses": double, "short_string_parses": short, "field_product_parses": prod,
            "parses_repeated_in_trapping_build": trapped_parses,
            "reachable_fens": reach_n, "builder_sequences": builds, "builder_accepted": built_ok,
            "accepted_inputs": accepted,
            "exhaustive": true,
            "exhaustive_note": "complete within the stated edit distance / length / product bounds; the set of all byte strings is not finite",
            "samples": [{"input": String::from_utf8_lossy(&sample), "result": format!("{:?}", chess_movegen::fen::parse_fen(&sample).map(|b| b.to_string()))}],
        }),
        &["invariants of an accepted board are read back through accessors (rights / marker from the Debug header) and evaluated by the reference model", "panics are observed with catch_unwind; aborts are C07's business (trapping build in worker processes)", "the parser also accepts some non-canonical spellings (a '/' is optional, ranks wrap by themselves, a blank inside the placement is skipped); the property only requires that what it accepts is playable, so WHICH board such a text yields is not compared - canonical texts are compared square by square (C05, and pass 5 here)"],
    )
}

pub fn c06_reachable_case(fen: &str) -> Vec<Divergence> {
    match std::panic::catch_unwind(|| chess_movegen::fen::parse_fen(fen.as_bytes())) {
        Err(_) => vec![Divergence::new("parser-panics", fen.to_string())],
        Ok(Err(e)) => vec![Divergence::new("reachable-canonical-fen-rejected", format!("'{fen}' rejected: {e:?}"))],
        Ok(Ok(b)) => {
            let want = Position::from_fen(fen).unwrap();
            match diff_position(&read_back(&b), &want) {
                Some(diff) => vec![Divergence::new("reachable-canonical-fen-misparsed", format!("'{fen}': {diff}"))],
                None => vec![],
            }
        }
    }
}

/// (square, colour, piece) alphabet chosen so that every validation rule can be hit
fn builder_alphabet() -> Vec<(u8, refchess::Col, refchess::Pc)> {
    use refchess::{Col, Pc};
    let squares = [0u8, 7, 4, 56, 63, 60, 35, 36, 27, 28, 43, 44, 19, 20, 32, 31, 12, 52];
    let mut v = vec![];
    for s in squares {
        for c in [Col::W, Col::B] {
            for p in [Pc::P, Pc::R, Pc::K, Pc::Q, Pc::N] {
                v.push((s, c, p));
            }
        }
    }
    v
}

#[derive(Clone, Debug)]
pub struct BuildSeq {
    pub kings: Vec<(u8, refchess::Col)>,
    pub places: Vec<(u8, refchess::Col, refchess::Pc)>,
    pub remove: Option<u8>,
    pub turn: refchess::Col,
    pub ep: Option<u8>,
}

pub fn builder_case(seq: &BuildSeq) -> (bool, Vec<Divergence>) {
    set_case(|| json!({"property": "C06", "case": {"kind": "builder", "seq": seq_to_json(seq)}}).to_string());
    let r = std::panic::catch_unwind(|| {
        let mut b = Board::builder();
        let mut place_errors = 0;
        let mut model: [Option<(refchess::Col, refchess::Pc)>; 64] = [None; 64];
        for &(s, c) in &seq.kings {
            if b.place(pos(s), real_color(c), chess_bitboard::Piece::King).is_err() {
                place_errors += 1;
            } else {
                model[s as usize] = Some((c, refchess::Pc::K));
            }
        }
        let mut d = vec![];
        for &(s, c, p) in &seq.places {
            let r = b.place(pos(s), real_color(c), real_piece(p));
            let occupied = model[s as usize].is_some();
            if r.is_err() != occupied {
                d.push(Divergence::new("builder-place-occupancy-check-wrong", format!("{seq:?}")));
            }
            if r.is_err() {
                place_errors += 1;
            } else {
                model[s as usize] = Some((c, p));
            }
        }
        if let Some(s) = seq.remove {
            b.remove(pos(s));
            model[s as usize] = None;
        }
        b.turn(real_color(seq.turn));
        b.enpassant(seq.ep.map(|f| File::from_u8(f).unwrap()));
        let _ = place_errors;
        let first = b.build();
        // the same builder used again: only the setters that leave the placement alone are called,
        // then build() once more - it must answer like a fresh builder given the final settings
        if seq.places.len() <= 1 {
            let alt_ep = if seq.ep == Some(3) { None } else { Some(3u8) };
            for (t2, e2) in [(seq.turn.flip(), seq.ep), (seq.turn, alt_ep), (seq.turn.flip(), alt_ep), (seq.turn, seq.ep)] {
                b.turn(real_color(t2));
                b.enpassant(e2.map(|f| File::from_u8(f).unwrap()));
                let again = b.build();
                let mut fresh = Board::builder();
                for sq in 0..64u8 {
                    if let Some((c, p)) = model[sq as usize] {
                        let _ = fresh.place(pos(sq), real_color(c), real_piece(p));
                    }
                }
                fresh.turn(real_color(t2));
                fresh.enpassant(e2.map(|f| File::from_u8(f).unwrap()));
                let want = fresh.build();
                let same = match (&again, &want) {
                    (Ok(a), Ok(w)) => a == w && a.zobrist() == w.zobrist() && format!("{a:?}") == format!("{w:?}"),
                    (Err(_), Err(_)) => true,
                    _ => false,
                };
                if !same {
                    d.push(Divergence::new("reused-builder-differs-from-fresh-builder", format!("{seq:?}, then turn({t2:?}) enpassant({e2:?}) build(): accepted={} but a fresh builder: accepted={}", again.is_ok(), want.is_ok())));
                }
            }
        }
        (first, model, d)
    });
    match r {
        Err(_) => (false, vec![Divergence::new("builder-panics", format!("{seq:?}"))]),
        Ok((Err(_), _, d)) => (false, d),
        Ok((Ok(board), model, mut d)) => {
            d.extend(accepted_board_invariants(&board, &format!("builder {seq:?}")));
            // and the board holds exactly what was placed
            let got = read_back(&board);
            if got.board != model || got.turn != seq.turn || got.ep != seq.ep.map(|f| f as i8) || got.rights.iter().any(|x| *x) {
                d.push(Divergence::new("builder-board-differs-from-calls", format!("{seq:?} built '{}'", got.to_fen())));
            } else if let Ok(twin) = parse_board(&got.to_fen()) {
                // same position through the parser: identical board, hash and derived state
                if twin != board || twin.zobrist() != board.zobrist() || twin.in_check() != board.in_check() || !twin.legals().eq(board.legals()) {
                    d.push(Divergence::new("builder-board-differs-from-parsed-twin", format!("{seq:?} built '{}' but hash / check state / moves differ from the parsed board", got.to_fen())));
                }
            }
            if EXERCISE.load(Ordering::Relaxed) && std::panic::catch_unwind(|| exercise(&board, 1)).is_err() {
                d.push(Divergence::new("accepted-position-crashes-safe-api", format!("builder {seq:?}")));
            }
            (true, d)
        }
    }
}

fn builder_sequences(report: &Report, quick: bool) -> (u64, u64) {
    use refchess::Col;
    let alpha = builder_alphabet();
    let king_sets: Vec<Vec<(u8, Col)>> = vec![
        vec![(4, Col::W), (60, Col::B)],
        vec![(6, Col::W), (62, Col::B)],
        vec![(24, Col::W), (39, Col::B)],
        vec![(4, Col::W)],
        vec![],
        vec![(4, Col::W), (3, Col::W), (60, Col::B)],
        vec![(27, Col::W), (28, Col::B)],
    ];
    let mut seqs: Vec<BuildSeq> = vec![];
    for kings in &king_sets {
        for turn in [Col::W, Col::B] {
            for ep in [None, Some(0u8), Some(3), Some(4), Some(7)] {
                // zero, one, two placements (+ optional removal of the first placed square)
                seqs.push(BuildSeq { kings: kings.clone(), places: vec![], remove: None, turn, ep });
                for &a in &alpha {
                    seqs.push(BuildSeq { kings: kings.clone(), places: vec![a], remove: None, turn, ep });
                    seqs.push(BuildSeq { kings: kings.clone(), places: vec![a], remove: Some(a.0), turn, ep });
                    if quick && kings.len() != 2 {
                        continue;
                    }
                    for &b in &alpha {
                        seqs.push(BuildSeq { kings: kings.clone(), places: vec![a, b], remove: None, turn, ep });
                    }
                }
            }
        }
    }
    // more than 16 pieces, either colour, either side to move
    for n in [14usize, 15, 16, 17] {
        for col in [Col::W, Col::B] {
            for turn in [Col::W, Col::B] {
                let mut places = vec![];
                for i in 0..n {
                    places.push((16 + i as u8, col, refchess::Pc::N));
                }
                seqs.push(BuildSeq { kings: vec![(4, Col::W), (60, Col::B)], places, remove: None, turn, ep: None });
            }
        }
    }
    let res: Vec<(bool, Vec<Divergence>)> = seqs.par_iter().map(builder_case).collect();
    let mut ok = 0;
    for (s, (accepted, d)) in seqs.iter().zip(res) {
        ok += accepted as u64;
        report.record(&d, || json!({"kind": "builder", "seq": seq_to_json(s)}));
    }
    (seqs.len() as u64, ok)
}

pub fn replay_c06(case: &Value) -> Vec<Divergence> {
    silence_panics();
    match case["kind"].as_str() {
        Some("bytes") => c06_case(&unhex(case["hex"].as_str().unwrap())),
        Some("reachable") => c06_reachable_case(case["fen"].as_str().unwrap()),
        Some("builder") => builder_case(&seq_from_json(&case["seq"])).1,
        Some("crash") => crate::crash::replay_c07(case).into_iter().map(|d| Divergence::new(format!("parser-panics-in-trapping-build:{}", d.class), d.detail)).collect(),
        _ => vec![],
    }
}

fn col_name(c: refchess::Col) -> &'static str {
    if c == refchess::Col::W {
        "w"
    } else {
        "b"
    }
}
fn col_from(s: &str) -> refchess::Col {
    if s == "w" {
        refchess::Col::W
    } else {
        refchess::Col::B
    }
}
fn pc_from(s: &str) -> refchess::Pc {
    use refchess::Pc;
    match s {
        "P" => Pc::P,
        "N" => Pc::N,
        "B" => Pc::B,
        "R" => Pc::R,
        "Q" => Pc::Q,
        _ => Pc::K,
    }
}

pub fn seq_to_json(s: &BuildSeq) -> Value {
    json!({
        "kings": s.kings.iter().map(|(q, c)| json!([q, col_name(*c)])).collect::<Vec<_>>(),
        "places": s.places.iter().map(|(q, c, p)| json!([q, col_name(*c), format!("{p:?}")])).collect::<Vec<_>>(),
        "remove": s.remove, "turn": col_name(s.turn), "ep": s.ep,
    })
}

pub fn seq_from_json(v: &Value) -> BuildSeq {
    BuildSeq {
        kings: v["kings"].as_array().unwrap().iter().map(|k| (k[0].as_u64().unwrap() as u8, col_from(k[1].as_str().unwrap()))).collect(),
        places: v["places"].as_array().unwrap().iter().map(|k| (k[0].as_u64().unwrap() as u8, col_from(k[1].as_str().unwrap()), pc_from(k[2].as_str().unwrap()))).collect(),
        remove: v["remove"].as_u64().map(|x| x as u8),
        turn: col_from(v["turn"].as_str().unwrap()),
        ep: v["ep"].as_u64().map(|x| x as u8),
    }
}
