//! Closed-form exhaustive checks: C14 (score order), C16 (ABI encodings), C17 (opening book),
//! C19 (square/file/rank/piece/move text forms and enumerating iterators).

use crate::common::*;
use crate::Args;
use chess_bitboard::{Color, File, Piece, Pos, PromotionPiece, Rank, Side};
use chess_engine::Score;
use chess_movegen::{Board, ChessMove};
use rayon::prelude::*;
use serde_json::{json, Value};
use std::cmp::Ordering;

// ------------------------------------------------------------------------------ C14

/// game-theoretic preference from White's point of view as a sortable key
fn score_key(s: Score) -> (u8, i64) {
    match s {
        Score::Min => (0, 0),
        Score::BlackMateIn(n) => (1, n as i64),   // a slower black mate is greater
        Score::Raw(x) => (2, x as i64),
        Score::WhiteMateIn(n) => (3, -(n as i64)), // a quicker white mate is greater
        Score::Max => (4, 0),
    }
}

fn score_name(s: Score) -> String {
    match s {
        Score::Min => "Min".into(),
        Score::BlackMateIn(n) => format!("BlackMateIn({n})"),
        Score::Raw(x) => format!("Raw({x})"),
        Score::WhiteMateIn(n) => format!("WhiteMateIn({n})"),
        Score::Max => "Max".into(),
    }
}

pub fn c14_pair(a: Score, b: Score) -> Vec<Divergence> {
    let want = score_key(a).cmp(&score_key(b));
    let got = a.cmp(&b);
    let mut d = vec![];
    let what = || format!("{} vs {}", score_name(a), score_name(b));
    let kind = |s: Score| match s {
        Score::Min => "Min",
        Score::BlackMateIn(_) => "BlackMate",
        Score::Raw(_) => "Raw",
        Score::WhiteMateIn(_) => "WhiteMate",
        Score::Max => "Max",
    };
    if got != want {
        d.push(Divergence::new(format!("cmp-wrong:{}-{}", kind(a), kind(b)), format!("{}: cmp = {got:?}, preference order says {want:?}", what())));
    }
    if a.partial_cmp(&b) != Some(got) {
        d.push(Divergence::new("partial_cmp-disagrees-with-cmp", what()));
    }
    if (a == b) != (got == Ordering::Equal) {
        d.push(Divergence::new("eq-disagrees-with-cmp", what()));
    }
    if (a != b) == (a == b) {
        d.push(Divergence::new("ne-not-negation-of-eq", what()));
    }
    if (a < b) != (got == Ordering::Less) || (a <= b) != (got != Ordering::Greater) || (a > b) != (got == Ordering::Greater) || (a >= b) != (got != Ordering::Less) {
        d.push(Divergence::new("comparison-operators-disagree-with-cmp", what()));
    }
    let (mx, mn) = (a.max(b), a.min(b));
    let exp_max = if got == Ordering::Greater { a } else { b };
    let exp_min = if got == Ordering::Greater { b } else { a };
    if mx != exp_max || mn != exp_min {
        d.push(Divergence::new("max-min-disagree-with-cmp", what()));
    }
    if b.cmp(&a) != got.reverse() {
        d.push(Divergence::new("cmp-not-antisymmetric", what()));
    }
    d
}

fn c14_reps() -> Vec<Score> {
    let mut v = vec![Score::Min, Score::Max];
    for n in [0u16, 1, 2, 0x7fff, 0x8000, 0xfffe, 0xffff] {
        v.push(Score::BlackMateIn(n));
        v.push(Score::WhiteMateIn(n));
    }
    for x in [i32::MIN, i32::MIN + 1, -2, -1, 0, 1, 2, i32::MAX - 1, i32::MAX] {
        v.push(Score::Raw(x));
    }
    v
}

pub fn run_c14(args: &Args) -> i32 {
    let report = Report::new("C14", args.tier, args.seed, "exploration");
    let reps = c14_reps();
    let mut n = 0u64;
    let mut unequal_pairs = 0u64;
    for &a in &reps {
        for &b in &reps {
            n += 1;
            if score_key(a) != score_key(b) {
                unequal_pairs += 1;
            }
            let d = c14_pair(a, b);
            report.record(&d, || json!({"kind": "pair", "a": score_name(a), "b": score_name(b)}));
        }
    }
    // transitivity and totality on all triples
    for &a in &reps {
        if a.cmp(&a) != Ordering::Equal {
            report.record(&[Divergence::new("cmp-not-reflexive", score_name(a))], || json!({"kind": "pair", "a": score_name(a), "b": score_name(a)}));
        }
        for &b in &reps {
            for &c in &reps {
                n += 1;
                if a <= b && b <= c && !(a <= c) {
                    report.record(&[Divergence::new("cmp-not-transitive", format!("{} <= {} <= {} but not {} <= {}", score_name(a), score_name(b), score_name(c), score_name(a), score_name(c)))], || json!({"kind": "pair", "a": score_name(a), "b": score_name(c)}));
                }
            }
        }
    }
    // every mate distance of either colour against every representative, both orders, all observations
    {
        let bad: Vec<(Score, Score)> = (0..=u16::MAX)
            .into_par_iter()
            .flat_map_iter(|x| {
                let mut bad = vec![];
                for a in [Score::BlackMateIn(x), Score::WhiteMateIn(x)] {
                    for &b in &reps {
                        if !c14_pair(a, b).is_empty() || !c14_pair(b, a).is_empty() {
                            bad.push((a, b));
                        }
                    }
                }
                bad
            })
            .collect();
        n += 65536 * 2 * reps.len() as u64 * 2;
        for (a, b) in bad.into_iter().take(50) {
            report.record(&c14_pair(a, b), || json!({"kind": "pair", "a": score_name(a), "b": score_name(b)}));
            report.record(&c14_pair(b, a), || json!({"kind": "pair", "a": score_name(b), "b": score_name(a)}));
        }
        // numeric scores on a grid against every representative
        let mut xs: Vec<i32> = vec![];
        let mut x = i32::MIN as i64;
        while x <= i32::MAX as i64 {
            xs.push(x as i32);
            x += 65_521;
        }
        for c in [0i64, 900, -900, 1800, 65_535, -65_536] {
            for dlt in -300..=300i64 {
                xs.push((c + dlt) as i32);
            }
        }
        for &x in &xs {
            for &b in &reps {
                n += 2;
                let a = Score::Raw(x);
                let d1 = c14_pair(a, b);
                let d2 = c14_pair(b, a);
                if !d1.is_empty() || !d2.is_empty() {
                    report.record(&d1, || json!({"kind": "pair", "a": score_name(a), "b": score_name(b)}));
                    report.record(&d2, || json!({"kind": "pair", "a": score_name(b), "b": score_name(a)}));
                }
            }
        }
    }
    let mut exhaustive_mates = false;
    if args.tier == Tier::Thorough {
        // all ordered pairs of mate distances for both mate variants, every mate distance against
        // every representative, and all 2^32 numeric scores against the 9 numeric representatives
        exhaustive_mates = true;
        let bad: Vec<(Score, Score)> = (0..=u16::MAX)
            .into_par_iter()
            .flat_map_iter(|x| {
                let mut bad = vec![];
                for y in 0..=u16::MAX {
                    for (a, b) in [(Score::BlackMateIn(x), Score::BlackMateIn(y)), (Score::WhiteMateIn(x), Score::WhiteMateIn(y)), (Score::BlackMateIn(x), Score::WhiteMateIn(y))] {
                        if a.cmp(&b) != score_key(a).cmp(&score_key(b)) || (a == b) != (score_key(a) == score_key(b)) {
                            bad.push((a, b));
                        }
                    }
                }
                bad
            })
            .collect();
        n += 3 * 65536u64 * 65536;
        for (a, b) in bad.into_iter().take(50) {
            report.record(&c14_pair(a, b), || json!({"kind": "pair", "a": score_name(a), "b": score_name(b)}));
        }
        let raws = [i32::MIN, i32::MIN + 1, -2, -1, 0, 1, 2, i32::MAX - 1, i32::MAX];
        let bad: Vec<(Score, Score)> = (i32::MIN..=i32::MAX)
            .into_par_iter()
            .flat_map_iter(|x| {
                let mut bad = vec![];
                let a = Score::Raw(x);
                for y in raws {
                    let b = Score::Raw(y);
                    if a.cmp(&b) != x.cmp(&y) || (a == b) != (x == y) {
                        bad.push((a, b));
                    }
                }
                for b in [Score::Min, Score::Max, Score::BlackMateIn(0), Score::BlackMateIn(u16::MAX), Score::WhiteMateIn(0), Score::WhiteMateIn(u16::MAX)] {
                    if a.cmp(&b) != score_key(a).cmp(&score_key(b)) {
                        bad.push((a, b));
                    }
                }
                bad
            })
            .collect();
        n += (1u64 << 32) * 15;
        for (a, b) in bad.into_iter().take(50) {
            report.record(&c14_pair(a, b), || json!({"kind": "pair", "a": score_name(a), "b": score_name(b)}));
        }
    } else {
        // quick: every mate distance against a sliding neighbourhood and the representatives
        for x in 0..=u16::MAX {
            for y in [x.wrapping_sub(1), x, x.wrapping_add(1), 0, 1, 0x7fff, 0x8000, 0xffff] {
                for (a, b) in [(Score::BlackMateIn(x), Score::BlackMateIn(y)), (Score::WhiteMateIn(x), Score::WhiteMateIn(y))] {
                    n += 1;
                    if a.cmp(&b) != score_key(a).cmp(&score_key(b)) {
                        report.record(&c14_pair(a, b), || json!({"kind": "pair", "a": score_name(a), "b": score_name(b)}));
                    }
                }
            }
        }
    }
    let i = (args.seed as usize) % reps.len();
    let j = (args.seed as usize * 7 + 3) % reps.len();
    report.finish(
        json!({
            "evaluations": n,
            "distinct_nontrivial": unequal_pairs,
            "rule": "non-trivial = ordered pairs of DIFFERENT representative scores (counted). 25 representative scores (both sentinels; mate distances 0,1,2,0x7fff,0x8000,0xfffe,0xffff for both colours; numeric MIN,MIN+1,-2,-1,0,1,2,MAX-1,MAX): all pairs (cmp, partial_cmp, ==, !=, <,<=,>,>=, max, min, antisymmetry) and all triples (transitivity); every mate distance of either colour and a numeric grid (every 65521st value plus +-300 around 0, +-900, 1800, 65535, -65536) against all 25 representatives in both orders with all observations. quick adds every mate distance against its neighbours and the representatives; thorough adds all 65536^2 ordered pairs of mate distances (same colour and cross colour) and all 2^32 numeric scores against 15 representatives. Non-trivial = distinct ordered representative pairs.",
            "exhaustive": true,
            "all_mate_distance_pairs": exhaustive_mates,
            "samples": [{"a": score_name(reps[i]), "b": score_name(reps[j]), "cmp": format!("{:?}", reps[i].cmp(&reps[j]))}],
        }),
        &["the preference order stated in the property is encoded as a (class, key) tuple compared lexicographically"],
    )
}

// ------------------------------------------------------------------------------ C16

fn all_moves() -> Vec<ChessMove> {
    let mut v = vec![];
    for from in 0..64u8 {
        for to in 0..64u8 {
            for piece in [None, Some(PromotionPiece::Knight), Some(PromotionPiece::Bishop), Some(PromotionPiece::Rook), Some(PromotionPiece::Queen)] {
                v.push(ChessMove { source: pos(from), dest: pos(to), piece });
            }
        }
    }
    v
}

fn mv_name(m: Option<ChessMove>) -> String {
    match m {
        None => "none".into(),
        Some(m) => ref_mv(m).uci(),
    }
}

pub fn c16_case(m: Option<ChessMove>, s: Score) -> Vec<Divergence> {
    let mut d = vec![];
    let e = chess_api::EvaluatedMove::new(m, s);
    if e.chess_move() != m {
        d.push(Divergence::new(
            if m.is_none() { "absent-move-not-preserved" } else { "optional-move-not-preserved" },
            format!("EvaluatedMove::new({}, {}).chess_move() = {}", mv_name(m), score_name(s), mv_name(e.chess_move())),
        ));
    }
    if e.score() != s || score_key(e.score()) != score_key(s) {
        d.push(Divergence::new("score-not-preserved", format!("EvaluatedMove::new({}, {}).score() = {}", mv_name(m), score_name(s), score_name(e.score()))));
    }
    if let Some(mv) = m {
        let back = ChessMove::from(chess_api::StableChessMove::from(mv));
        if back != mv {
            d.push(Divergence::new("move-not-preserved", format!("StableChessMove round trip of {} = {}", mv_name(m), mv_name(Some(back)))));
        }
    }
    d
}

pub fn run_c16(args: &Args) -> i32 {
    let report = Report::new("C16", args.tier, args.seed, "exploration");
    let moves = all_moves();
    let mut n = 0u64;
    let few_scores = [Score::Min, Score::Max, Score::Raw(0), Score::Raw(-1), Score::WhiteMateIn(1), Score::BlackMateIn(0xffff)];
    let mut opt: Vec<Option<ChessMove>> = moves.iter().copied().map(Some).collect();
    opt.push(None);
    for &m in &opt {
        for &s in &few_scores {
            n += 1;
            report.record(&c16_case(m, s), || json!({"kind": "abi", "move": mv_name(m), "score": score_name(s)}));
        }
    }
    let few_moves = [None, Some(moves[0]), Some(moves[20479]), Some(moves[(args.seed as usize * 37 + 1234) % moves.len()])];
    let mut scores: Vec<Score> = vec![Score::Min, Score::Max];
    for x in 0..=u16::MAX {
        scores.push(Score::BlackMateIn(x));
        scores.push(Score::WhiteMateIn(x));
    }
    for &s in &scores {
        for &m in &few_moves {
            n += 1;
            report.record(&c16_case(m, s), || json!({"kind": "abi", "move": mv_name(m), "score": score_name(s)}));
        }
    }
    let all_raw = args.tier == Tier::Thorough;
    let check_raw = |x: i32| -> bool {
        let s = Score::Raw(x);
        let e = chess_api::EvaluatedMove::new(None, s);
        let e2 = chess_api::EvaluatedMove::new(Some(ChessMove { source: Pos::E2, dest: Pos::E4, piece: None }), s);
        e.score() == s && e.chess_move().is_none() && e2.score() == s && e2.chess_move().is_some()
    };
    let raw_count;
    if all_raw {
        let bad: Vec<i32> = (i32::MIN..=i32::MAX).into_par_iter().filter(|&x| !check_raw(x)).collect();
        raw_count = 1u64 << 32;
        for x in bad.into_iter().take(20) {
            report.record(&c16_case(None, Score::Raw(x)), || json!({"kind": "abi", "move": "none", "score": format!("Raw({x})")}));
        }
    } else {
        let mut xs: Vec<i32> = vec![];
        for c in [0i64, i32::MIN as i64, i32::MAX as i64, 1 << 16, -(1 << 16), 1 << 24, -(1 << 24), 0x7fff, 0x8000, 0xffff] {
            for dlt in -(1i64 << 16)..(1i64 << 16) {
                let v = c + dlt;
                if v >= i32::MIN as i64 && v <= i32::MAX as i64 {
                    xs.push(v as i32);
                }
            }
        }
        let mut x = i32::MIN as i64;
        while x <= i32::MAX as i64 {
            xs.push(x as i32);
            x += 4096 - 1;
        }
        raw_count = xs.len() as u64;
        for x in xs {
            if !check_raw(x) {
                report.record(&c16_case(None, Score::Raw(x)), || json!({"kind": "abi", "move": "none", "score": format!("Raw({x})")}));
            }
        }
    }
    n += raw_count;
    report.finish(
        json!({
            "evaluations": n,
            "distinct_nontrivial": (opt.len() + scores.len()) as u64 + raw_count,
            "rule": "all 64*64*5 = 20480 moves + 'no move' through StableChessMove and through EvaluatedMove (x 6 scores); Min, Max and all 2*65536 mate distances (x 4 moves incl. none); numeric scores: quick = +-65536 around 0, i32::MIN, i32::MAX, +-2^16, +-2^24, 0x7fff, 0x8000, 0xffff plus every 4095th value; thorough = all 2^32. Non-trivial = distinct moves + distinct scores encoded.",
            "exhaustive": true,
            "all_numeric_scores": all_raw,
            "samples": [{"move": mv_name(few_moves[3]), "score": "WhiteMateIn(1)", "round_trip": mv_name(chess_api::EvaluatedMove::new(few_moves[3], Score::WhiteMateIn(1)).chess_move())}],
        }),
        &["conversions are exercised through the public From impls and EvaluatedMove accessors of chess-api, as linked into the harness (same code the plugin boundary uses)"],
    )
}

// ------------------------------------------------------------------------------ C17

fn book_index(b: chess_lookup::BookMoves) -> usize {
    format!("{b:?}")
        .trim_start_matches("book")
        .parse()
        .unwrap_or_else(|_| machinery_failure("BookMoves no longer renders as `book<index>`: the index observation of C17 must be adapted"))
}

pub struct BookWalk {
    pub nodes: u64,
    pub leaves: u64,
    pub max_depth: u32,
    pub divs: Vec<(Divergence, Vec<String>)>,
    pub sample: Vec<String>,
}

fn walk(node: chess_lookup::BookMoves, board: &Board, rp: &refchess::Position, path: &mut Vec<String>, size: usize, w: &mut BookWalk, depth: u32) {
    w.max_depth = w.max_depth.max(depth);
    let my_index = book_index(node);
    let mut steps = 0u64;
    let mut any = false;
    // the CLI picks a book move with `count()` and `nth(k)`: both must describe the same list as `next()`
    {
        let listed: Vec<(u8, u8, usize)> = node.into_iter().take(100_001).map(|m| (m.source as u8, m.dest as u8, book_index(m.children))).collect();
        let counted = node.into_iter().count();
        if counted != listed.len() {
            w.divs.push((Divergence::new("book-count-disagrees-with-iteration", format!("after [{}]: count() = {counted} but iteration yields {} moves", path.join(" "), listed.len())), path.clone()));
        }
        for k in 0..=listed.len().max(counted) {
            let got = node.into_iter().nth(k).map(|m| (m.source as u8, m.dest as u8, book_index(m.children)));
            if got != listed.get(k).copied() {
                w.divs.push((Divergence::new("book-nth-disagrees-with-iteration", format!("after [{}]: nth({k}) = {got:?} but iteration yields {:?}", path.join(" "), listed.get(k))), path.clone()));
                break;
            }
        }
    }
    for bm in node {
        steps += 1;
        if steps > 100_000 {
            w.divs.push((Divergence::new("book-iteration-does-not-terminate", format!("node book{my_index} yields more than 100000 entries")), path.clone()));
            return;
        }
        any = true;
        w.nodes += 1;
        let m = refchess::Mv::new(bm.source as u8, bm.dest as u8, None);
        let ci = book_index(bm.children);
        if ci >= size {
            w.divs.push((Divergence::new("book-child-index-out-of-table", format!("after [{}] child index {ci} >= table size {size}", path.join(" "))), path.clone()));
            continue;
        }
        if ci >= my_index {
            w.divs.push((Divergence::new("book-child-index-not-below-parent", format!("after [{}] child index {ci} >= parent index {my_index}", path.join(" "))), path.clone()));
            continue;
        }
        let legal = rp.legal_moves();
        if !legal.contains(&m) {
            let needs_promo = legal.iter().any(|l| l.from == m.from && l.to == m.to);
            w.divs.push((
                Divergence::new(
                    if needs_promo { "book-move-needs-promotion-choice" } else { "book-move-illegal" },
                    format!("after [{}] the book plays {} which is not legal in {}", path.join(" "), m.uci(), rp.to_fen()),
                ),
                path.clone(),
            ));
            continue;
        }
        let Some(nb) = board.move_new(real_mv(m)) else {
            w.divs.push((Divergence::new("book-move-refused-by-board", format!("after [{}] move_new({}) = None", path.join(" "), m.uci())), path.clone()));
            continue;
        };
        let nrp = rp.make(m);
        if diff_position(&read_back(&nb), &nrp).is_some() {
            w.divs.push((Divergence::new("book-line-successor-differs", format!("after [{}] {}", path.join(" "), m.uci())), path.clone()));
        }
        path.push(m.uci());
        walk(bm.children, &nb, &nrp, path, size, w, depth + 1);
        path.pop();
    }
    if !any {
        w.leaves += 1;
        if w.sample.is_empty() || (w.leaves % 4099 == 0) {
            w.sample = path.clone();
        }
    }
}

pub fn c17_walk() -> BookWalk {
    let size = book_index(chess_lookup::INITIAL_BOOOK_MOVES) + 1;
    let mut w = BookWalk { nodes: 0, leaves: 0, max_depth: 0, divs: vec![], sample: vec![] };
    let r = std::panic::catch_unwind(|| {
        let mut w = BookWalk { nodes: 0, leaves: 0, max_depth: 0, divs: vec![], sample: vec![] };
        let board = Board::standard();
        let rp = refchess::Position::start();
        walk(chess_lookup::INITIAL_BOOOK_MOVES, &board, &rp, &mut vec![], size, &mut w, 0);
        // the empty book yields nothing
        if chess_lookup::EMPTY_BOOK_MOVES.into_iter().next().is_some() {
            w.divs.push((Divergence::new("empty-book-not-empty", "EMPTY_BOOK_MOVES yields a move"), vec![]));
        }
        w
    });
    match r {
        Ok(x) => w = x,
        Err(_) => w.divs.push((Divergence::new("book-walk-panics", "walking the book panicked (index assertion or unwrap)"), vec![])),
    }
    w
}

pub fn run_c17(args: &Args) -> i32 {
    let report = Report::new("C17", args.tier, args.seed, "exploration");
    let w = c17_walk();
    for (d, path) in &w.divs {
        report.record(std::slice::from_ref(d), || json!({"kind": "book", "path": path}));
    }
    if w.nodes < 1000 && w.divs.is_empty() {
        machinery_failure("book walk visited fewer than 1000 nodes: the harness is not seeing the embedded book");
    }
    report.finish(
        json!({
            "evaluations": w.nodes,
            "distinct_nontrivial": w.nodes,
            "rule": "complete depth-first walk of the embedded opening book from INITIAL_BOOOK_MOVES, carrying the real Board and the reference position; every yielded node is one evaluation (distinct by its path) and is non-trivial (a move is applied on both boards).",
            "leaves": w.leaves, "max_depth": w.max_depth,
            "exhaustive": true,
            "debug_assertions_enabled": cfg!(debug_assertions),
            "samples": [{"line": w.sample}],
        }),
        &["run in the trapping build flavour (debug assertions on) so the iterator's own index assertion is active", "book indices are read from the Debug rendering `book<index>`"],
    )
}

// ------------------------------------------------------------------------------ C19

fn c19_values(d: &mut Vec<Divergence>, n: &mut u64) {
    let mut bad = |class: &str, detail: String| d.push(Divergence::new(class, detail));
    // from_u8 on all bytes
    for b in 0..=255u8 {
        *n += 6;
        match Pos::from_u8(b) {
            Some(p) => {
                if b >= 64 || p as u8 != b || p.to_u8() != b {
                    bad("pos-from_u8-wrong", format!("Pos::from_u8({b})"));
                }
            }
            None => {
                if b < 64 {
                    bad("pos-from_u8-wrong", format!("Pos::from_u8({b}) = None"));
                }
            }
        }
        if File::from_u8(b).map(|f| f as u8) != if b < 8 { Some(b) } else { None } {
            bad("file-from_u8-wrong", format!("File::from_u8({b})"));
        }
        if Rank::from_u8(b).map(|f| f as u8) != if b < 8 { Some(b) } else { None } {
            bad("rank-from_u8-wrong", format!("Rank::from_u8({b})"));
        }
        if Piece::from_u8(b).map(|f| f as u8) != if b < 6 { Some(b) } else { None } {
            bad("piece-from_u8-wrong", format!("Piece::from_u8({b})"));
        }
        if Color::from_u8(b).map(|f| f as u8) != if b < 2 { Some(b) } else { None } {
            bad("color-from_u8-wrong", format!("Color::from_u8({b})"));
        }
        if Side::from_u8(b).map(|f| f as u8) != if b < 2 { Some(b) } else { None } {
            bad("side-from_u8-wrong", format!("Side::from_u8({b})"));
        }
    }
    for s in 0..64u8 {
        *n += 1;
        let p = pos(s);
        let (f, r) = (s % 8, s / 8);
        if p.file() as u8 != f || p.rank() as u8 != r || Pos::new(p.file(), p.rank()) != p || Pos::const_from_u8(s) != p {
            bad("pos-file-rank-composition", refchess::sq_name(s));
        }
        let nb = |df: i8, dr: i8| -> Option<u8> {
            let (nf, nr) = (f as i8 + df, r as i8 + dr);
            if (0..8).contains(&nf) && (0..8).contains(&nr) {
                Some((nr * 8 + nf) as u8)
            } else {
                None
            }
        };
        if p.shift_up().map(|x| x as u8) != nb(0, 1) || p.shift_down().map(|x| x as u8) != nb(0, -1) || p.shift_left().map(|x| x as u8) != nb(-1, 0) || p.shift_right().map(|x| x as u8) != nb(1, 0) {
            bad("pos-neighbour-wrong", refchess::sq_name(s));
        }
        if p.flip_rank() as u8 != (7 - r) * 8 + f || p.flip_rank().flip_rank() != p {
            bad("pos-flip_rank-wrong", refchess::sq_name(s));
        }
        let text = p.to_string();
        if text != refchess::sq_name(s) {
            bad("pos-display-wrong", format!("{} displays as {text}", refchess::sq_name(s)));
        }
        if text.parse::<Pos>() != Ok(p) || Pos::from_ascii_bytes(text.as_bytes()) != Some(p) {
            bad("pos-text-round-trip", text.clone());
        }
        // array indexing by Pos uses the same numbering
        let mut arr = [0u8; 64];
        arr[p] = 1;
        let ro: &[u8; 64] = &arr;
        if arr[s as usize] != 1 || ro[p] != 1 || arr.iter().map(|&x| x as u32).sum::<u32>() != 1 {
            bad("pos-index-wrong", text);
        }
    }
    // the other array-index impls (read and write forms): File / Rank on [T; 8], Piece on [T; 6],
    // Color and Side on [T; 2] use the same numbering as to_u8 / declaration order
    for i in 0..8u8 {
        let (f, r) = (File::from_u8(i).unwrap(), Rank::from_u8(i).unwrap());
        let mut af = [0u8; 8];
        let mut ar = [0u8; 8];
        af[f] = 7;
        ar[r] = 9;
        let (rf, rr): (&[u8; 8], &[u8; 8]) = (&af, &ar);
        if af[i as usize] != 7 || rf[f] != 7 || af.iter().filter(|&&x| x != 0).count() != 1 || ar[i as usize] != 9 || rr[r] != 9 || ar.iter().filter(|&&x| x != 0).count() != 1 {
            bad("file-rank-array-index-wrong", format!("{i}"));
        }
    }
    for (i, pc) in Piece::all().enumerate() {
        let mut a = [0u8; 6];
        a[pc] = 3;
        let ro: &[u8; 6] = &a;
        if a[i] != 3 || ro[pc] != 3 || a.iter().filter(|&&x| x != 0).count() != 1 || pc as usize != i {
            bad("piece-array-index-wrong", format!("{pc:?}"));
        }
    }
    for (i, c) in Color::all().enumerate() {
        let mut a = [0u8; 2];
        a[c] = 5;
        let ro: &[u8; 2] = &a;
        if a[i] != 5 || ro[c] != 5 || a[1 - i] != 0 {
            bad("color-array-index-wrong", format!("{c:?}"));
        }
    }
    for (i, sd) in Side::all().enumerate() {
        let mut a = [0u8; 2];
        a[sd] = 5;
        let ro: &[u8; 2] = &a;
        if a[i] != 5 || ro[sd] != 5 || a[1 - i] != 0 {
            bad("side-array-index-wrong", format!("{sd:?}"));
        }
    }
    for i in 0..8u8 {
        *n += 2;
        let f = File::from_u8(i).unwrap();
        let r = Rank::from_u8(i).unwrap();
        if f.to_u8() != i || r.to_u8() != i || File::const_from_u8(i) != f || Rank::const_from_u8(i) != r {
            bad("file-rank-index-conversion", format!("{i}"));
        }
        if f.shift_left().map(|x| x as u8) != i.checked_sub(1) || f.shift_right().map(|x| x as u8) != if i < 7 { Some(i + 1) } else { None } {
            bad("file-neighbour-wrong", format!("{i}"));
        }
        if r.shift_down().map(|x| x as u8) != i.checked_sub(1) || r.shift_up().map(|x| x as u8) != if i < 7 { Some(i + 1) } else { None } {
            bad("rank-neighbour-wrong", format!("{i}"));
        }
        if r.flip() as u8 != 7 - i {
            bad("rank-flip-wrong", format!("{i}"));
        }
        if f.lower_letter() != (b'a' + i) as char || f.upper_letter() != (b'A' + i) as char || f.to_string() != ((b'a' + i) as char).to_string() {
            bad("file-letter-wrong", format!("{i}"));
        }
        if r.to_string() != ((b'1' + i) as char).to_string() {
            bad("rank-display-wrong", format!("{i}"));
        }
        if f.to_string().parse::<File>() != Ok(f) || r.to_string().parse::<Rank>() != Ok(r) {
            bad("file-rank-text-round-trip", format!("{i}"));
        }
        if (f.side() == Side::Queen) != (i < 4) {
            bad("file-side-wrong", format!("{i}"));
        }
        for j in 0..8u8 {
            if f.dist_to(File::from_u8(j).unwrap()) != i.abs_diff(j) || r.dist_to(Rank::from_u8(j).unwrap()) != i.abs_diff(j) {
                bad("dist_to-wrong", format!("{i} {j}"));
            }
        }
        // File / Rank as iterators of squares
        let fs: Vec<u8> = f.iter().map(|p| p as u8).collect();
        let rs: Vec<u8> = r.iter().map(|p| p as u8).collect();
        if fs != (0..8).map(|k| k * 8 + i).collect::<Vec<u8>>() || rs != (0..8).map(|k| i * 8 + k).collect::<Vec<u8>>() {
            bad("file-rank-square-iteration-wrong", format!("{i}"));
        }
        if f.into_iter().map(|p| p as u8).collect::<Vec<u8>>() != fs || r.into_iter().map(|p| p as u8).collect::<Vec<u8>>() != rs {
            bad("file-rank-into_iter-wrong", format!("{i}"));
        }
    }
    if (!Color::White) != Color::Black || (!Color::Black) != Color::White || (!Side::King) != Side::Queen || (!Side::Queen) != Side::King {
        bad("not-operator-wrong", "Color / Side".into());
    }
    for (pp, p, ch) in [(PromotionPiece::Knight, Piece::Knight, "N"), (PromotionPiece::Bishop, Piece::Bishop, "B"), (PromotionPiece::Rook, Piece::Rook, "R"), (PromotionPiece::Queen, Piece::Queen, "Q")] {
        *n += 1;
        if pp.to_piece() != p || Piece::from(pp) != p || pp.to_string() != ch || ch.parse::<PromotionPiece>() != Ok(pp) {
            bad("promotion-piece-conversion", ch.into());
        }
    }
}

fn want_file(b: u8) -> Option<u8> {
    match b {
        b'a'..=b'h' => Some(b - b'a'),
        b'A'..=b'H' => Some(b - b'A'),
        _ => None,
    }
}
fn want_rank(b: u8) -> Option<u8> {
    match b {
        b'1'..=b'8' => Some(b - b'1'),
        _ => None,
    }
}
fn want_piece(b: u8) -> Option<Piece> {
    Some(match b.to_ascii_lowercase() {
        b'p' if b.is_ascii_alphabetic() => Piece::Pawn,
        b'n' if b.is_ascii_alphabetic() => Piece::Knight,
        b'b' if b.is_ascii_alphabetic() => Piece::Bishop,
        b'r' if b.is_ascii_alphabetic() => Piece::Rook,
        b'q' if b.is_ascii_alphabetic() => Piece::Queen,
        b'k' if b.is_ascii_alphabetic() => Piece::King,
        _ => return None,
    })
}

fn hex(b: &[u8]) -> String {
    b.iter().map(|x| format!("{x:02x}")).collect()
}

/// single-value parsers on every byte string of length 0..=2 (all 256 byte values)
fn c19_short_parsers(d: &mut Vec<Divergence>, n: &mut u64) {
    let mut inputs: Vec<Vec<u8>> = vec![vec![]];
    for a in 0..=255u8 {
        inputs.push(vec![a]);
    }
    for a in 0..=255u8 {
        for b in 0..=255u8 {
            inputs.push(vec![a, b]);
        }
    }
    // length 3 over the confusable alphabet
    for &a in MOVE_ALPHABET {
        for &b in MOVE_ALPHABET {
            for &c in MOVE_ALPHABET {
                inputs.push(vec![a, b, c]);
            }
        }
    }
    for inp in &inputs {
        *n += 1;
        let wf = if inp.len() == 1 { want_file(inp[0]) } else { None };
        let wr = if inp.len() == 1 { want_rank(inp[0]) } else { None };
        let wp = if inp.len() == 1 { want_piece(inp[0]) } else { None };
        let wpp = wp.and_then(|p| match p {
            Piece::Knight => Some(PromotionPiece::Knight),
            Piece::Bishop => Some(PromotionPiece::Bishop),
            Piece::Rook => Some(PromotionPiece::Rook),
            Piece::Queen => Some(PromotionPiece::Queen),
            _ => None,
        });
        let wpos = if inp.len() == 2 { want_file(inp[0]).zip(want_rank(inp[1])).map(|(f, r)| r * 8 + f) } else { None };
        if File::from_ascii_bytes(inp).map(|x| x as u8) != wf {
            d.push(Divergence::new("file-parser-accepts-wrong-set", format!("File::from_ascii_bytes(0x{})", hex(inp))));
        }
        if Rank::from_ascii_bytes(inp).map(|x| x as u8) != wr {
            d.push(Divergence::new("rank-parser-accepts-wrong-set", format!("Rank::from_ascii_bytes(0x{})", hex(inp))));
        }
        if Piece::from_ascii_bytes(inp) != wp {
            d.push(Divergence::new("piece-parser-accepts-wrong-set", format!("Piece::from_ascii_bytes(0x{})", hex(inp))));
        }
        if PromotionPiece::from_ascii_bytes(inp) != wpp {
            d.push(Divergence::new("promotion-parser-accepts-wrong-set", format!("PromotionPiece::from_ascii_bytes(0x{})", hex(inp))));
        }
        if Pos::from_ascii_bytes(inp).map(|x| x as u8) != wpos {
            d.push(Divergence::new("pos-parser-accepts-wrong-set", format!("Pos::from_ascii_bytes(0x{})", hex(inp))));
        }
        if inp.len() == 1 {
            if File::from_ascii_byte(inp[0]).map(|x| x as u8) != wf || Rank::from_ascii_byte(inp[0]).map(|x| x as u8) != wr || Piece::from_ascii_byte(inp[0]) != wp || PromotionPiece::from_ascii_byte(inp[0]) != wpp {
                d.push(Divergence::new("single-byte-parser-wrong", format!("from_ascii_byte(0x{})", hex(inp))));
            }
        }
        if let Ok(s) = std::str::from_utf8(inp) {
            if s.parse::<File>().ok().map(|x| x as u8) != wf || s.parse::<Rank>().ok().map(|x| x as u8) != wr || s.parse::<Piece>().ok() != wp || s.parse::<PromotionPiece>().ok() != wpp || s.parse::<Pos>().ok().map(|x| x as u8) != wpos {
                d.push(Divergence::new("fromstr-disagrees-with-byte-parser", format!("{s:?}")));
            }
        }
    }
}

/// a-h, A-H, 1-8, '-', and the neighbours that bit tricks could confuse
const MOVE_ALPHABET: &[u8] = b"abcdefghABCDEFGH12345678-`@iI09 \x80\xe1";

fn want_move(s: &[u8]) -> Option<(u8, u8)> {
    let sq = |f: u8, r: u8| want_file(f).zip(want_rank(r)).map(|(f, r)| r * 8 + f);
    match s.len() {
        4 => sq(s[0], s[1]).zip(sq(s[2], s[3])),
        5 if s[2] == b'-' => sq(s[0], s[1]).zip(sq(s[3], s[4])),
        _ => None,
    }
}

fn c19_move_case(s: &[u8]) -> Option<Divergence> {
    let got = ChessMove::from_ascii_bytes(s);
    let want = want_move(s);
    let ok = match (got, want) {
        (None, None) => true,
        (Some(m), Some((a, b))) => m.source as u8 == a && m.dest as u8 == b && m.piece.is_none(),
        _ => false,
    };
    if ok {
        None
    } else {
        Some(Divergence::new(
            if want.is_none() { "move-parser-accepts-unintended-spelling" } else { "move-parser-rejects-or-misreads-intended-spelling" },
            format!("ChessMove::from_ascii_bytes(0x{} = {:?}) = {:?}", hex(s), String::from_utf8_lossy(s), got.map(|m| ref_mv(m).uci())),
        ))
    }
}

fn c19_moves(tier: Tier, d: &mut Vec<Divergence>, n: &mut u64) {
    let a = MOVE_ALPHABET;
    let k = a.len();
    // lengths 0..=3 and 6 complete over the alphabet (6 only in thorough), 4 and 5 complete
    let lens: &[usize] = if tier == Tier::Thorough { &[0, 1, 2, 3, 4, 5, 6] } else { &[0, 1, 2, 3, 4, 5] };
    for &len in lens {
        let total = (k as u64).pow(len as u32);
        let bad: Vec<Divergence> = (0..total)
            .into_par_iter()
            .filter_map(|mut idx| {
                let mut s = [0u8; 6];
                for i in 0..len {
                    s[i] = a[(idx % k as u64) as usize];
                    idx /= k as u64;
                }
                c19_move_case(&s[..len])
            })
            .collect();
        *n += total;
        d.extend(bad.into_iter().take(20));
    }
    // longer strings assembled from tokens: squares (valid and near-valid) joined by separator runs
    {
        let squares: [&[u8]; 9] = [b"e2", b"e4", b"a1", b"h8", b"E2", b"i9", b"e0", b"e", b""];
        let seps: [&[u8]; 12] = [b"", b"-", b"--", b"---", b"----------", b" ", b"- ", b" -", b"x", b"-x", b"=", b"\x80"];
        let tails: [&[u8]; 5] = [b"", b"q", b"-", b" ", b"e4"];
        for a in squares {
            for sep in seps {
                for b in squares {
                    for t in tails {
                        let s: Vec<u8> = [a, sep, b, t].concat();
                        *n += 1;
                        if let Some(dv) = c19_move_case(&s) {
                            d.push(dv);
                        }
                    }
                }
            }
        }
    }
    // the promotion arm of Display is only required not to panic (the property's text forms carry no
    // promotion and say nothing about how one is rendered)
    for from in 0..64u8 {
        for to in 0..64u8 {
            for pp in [PromotionPiece::Knight, PromotionPiece::Bishop, PromotionPiece::Rook, PromotionPiece::Queen] {
                *n += 1;
                let m = ChessMove { source: pos(from), dest: pos(to), piece: Some(pp) };
                if std::panic::catch_unwind(|| m.to_string().len()).is_err() {
                    d.push(Divergence::new("move-display-panics", format!("{}{} promoting to {pp:?}", refchess::sq_name(from), refchess::sq_name(to))));
                }
            }
        }
    }
    // display -> parse for all non-promotion moves
    for from in 0..64u8 {
        for to in 0..64u8 {
            *n += 1;
            let m = ChessMove { source: pos(from), dest: pos(to), piece: None };
            let text = m.to_string();
            if text.parse::<ChessMove>() != Ok(m) || ChessMove::from_ascii_bytes(text.as_bytes()) != Some(m) {
                d.push(Divergence::new("move-text-round-trip", text.clone()));
            }
            let compact = format!("{}{}", refchess::sq_name(from), refchess::sq_name(to));
            if compact.parse::<ChessMove>() != Ok(m) || compact.to_uppercase().parse::<ChessMove>() != Ok(m) {
                d.push(Divergence::new("move-compact-form-rejected", compact));
            }
        }
    }
}

/// deviations from a valid spelling: every byte position of every valid move text replaced by each
/// of the 256 byte values (byte parser), and every char position of the valid texts of every
/// FromStr parser replaced by non-ASCII chars (a `char as u8` narrowing folds those onto ASCII)
fn c19_substitutions(tier: Tier, d: &mut Vec<Divergence>, n: &mut u64) {
    let texts: Vec<Vec<u8>> = (0..4096u32)
        .flat_map(|i| {
            let (a, b) = ((i / 64) as u8, (i % 64) as u8);
            let lower = format!("{}{}", refchess::sq_name(a), refchess::sq_name(b));
            vec![lower.clone().into_bytes(), lower.to_uppercase().into_bytes(), format!("{}-{}", refchess::sq_name(a), refchess::sq_name(b)).into_bytes()]
        })
        .collect();
    let bad: Vec<Divergence> = texts
        .par_iter()
        .flat_map_iter(|t| {
            let mut bad = vec![];
            for i in 0..t.len() {
                for v in 0..=255u8 {
                    let mut s = t.clone();
                    s[i] = v;
                    if let Some(dv) = c19_move_case(&s) {
                        bad.push(dv);
                    }
                }
            }
            bad
        })
        .collect();
    *n += texts.iter().map(|t| t.len() as u64 * 256).sum::<u64>();
    d.extend(bad.into_iter().take(20));
    // non-ASCII chars: none may be accepted anywhere by any FromStr parser
    let chars: Vec<char> = if tier == Tier::Thorough { (0x80u32..=0x10FFFF).filter_map(char::from_u32).collect() } else { (0x80u32..0x3000).chain(0xFF00..=0xFFFF).chain([0x10061, 0x10031, 0x1F431, 0x10FF61]).filter_map(char::from_u32).collect() };
    let singles: Vec<String> = "abcdefghABCDEFGH12345678pnbrqkPNBRQK".chars().map(|c| c.to_string()).collect();
    let squares: Vec<String> = ["a1", "h8", "e2", "E4", "H1", "a8"].iter().map(|s| s.to_string()).collect();
    let moves: Vec<String> = ["e2e4", "e2-e4", "a1h8", "H8-A1", "a7a8", "b1-c3"].iter().map(|s| s.to_string()).collect();
    let bad: Vec<Divergence> = chars
        .par_iter()
        .flat_map_iter(|&c| {
            let mut bad = vec![];
            let mut probe = |s: String| {
                let ok = s.parse::<File>().is_err() && s.parse::<Rank>().is_err() && s.parse::<Piece>().is_err() && s.parse::<PromotionPiece>().is_err() && s.parse::<Pos>().is_err() && s.parse::<ChessMove>().is_err();
                if !ok {
                    bad.push(Divergence::new("fromstr-accepts-non-ascii-text", format!("{s:?} (U+{:04X}) is accepted by a FromStr parser", c as u32)));
                }
            };
            probe(c.to_string());
            for t in singles.iter().chain(squares.iter()).chain(moves.iter()) {
                let cs: Vec<char> = t.chars().collect();
                for i in 0..cs.len() {
                    let mut x = cs.clone();
                    x[i] = c;
                    probe(x.into_iter().collect());
                }
                // and inserted in front / behind
                probe(format!("{c}{t}"));
                probe(format!("{t}{c}"));
            }
            bad
        })
        .collect();
    *n += chars.len() as u64 * (1 + singles.len() as u64 * 3 + squares.len() as u64 * 4 + 6 + 5 + 6 + 7 + 6 + 7 + 2 * 6);
    d.extend(bad.into_iter().take(20));
    // ASCII text around valid single values: signs, leading zeros, blanks (an integer grammar accepts them)
    for t in singles.iter().chain(squares.iter()).chain(moves.iter()) {
        for pre in ["+", "-", "0", "00", " ", "\t", "\n", "+0", "0x", "\0"] {
            for s in [format!("{pre}{t}"), format!("{t}{pre}")] {
                *n += 1;
                let bytes = s.as_bytes();
                let wm = want_move(bytes);
                let ok = s.parse::<File>().is_err() && s.parse::<Rank>().is_err() && s.parse::<Piece>().is_err() && s.parse::<PromotionPiece>().is_err() && s.parse::<Pos>().is_err() && s.parse::<ChessMove>().ok().map(|m| (m.source as u8, m.dest as u8)) == wm;
                if !ok {
                    d.push(Divergence::new("fromstr-accepts-decorated-text", format!("{s:?}")));
                }
            }
        }
    }
}

// ---- enumerating iterators explored as state machines against a slice model

#[derive(Clone, Copy, Debug)]
enum ItOp {
    Next,
    NextBack,
    Nth(usize),
    NthBack(usize),
}

/// skip counts that a truncating cast or a wrapping shift would fold back into range
fn big_skips() -> Vec<usize> {
    let mut v = vec![usize::MAX, usize::MAX - 1];
    for sh in [8u32, 16, 32, 48, 63] {
        let base = 1usize << sh;
        for off in [0usize, 1, 2, 5, 7] {
            v.push(base + off);
        }
        v.push(base - 1);
    }
    v
}

fn explore_double_ended<I, T>(name: &str, fresh: I, all: &[T], d: &mut Vec<Divergence>, n: &mut u64) -> usize
where
    I: Iterator<Item = T> + DoubleEndedIterator + Clone + PartialEq + std::fmt::Debug,
    T: PartialEq + Copy + std::fmt::Debug,
{
    use std::collections::BTreeMap;
    let len = all.len();
    // model state = (lo, hi): remaining = all[lo..hi]
    let mut seen: BTreeMap<(usize, usize), I> = BTreeMap::new();
    let mut queue = vec![(0usize, len)];
    seen.insert((0, len), fresh);
    while let Some((lo, hi)) = queue.pop() {
        let it = seen.get(&(lo, hi)).unwrap().clone();
        let rem = hi - lo;
        *n += 1;
        if it.size_hint() != (rem, Some(rem)) {
            d.push(Divergence::new(format!("{name}-size_hint-wrong"), format!("{name} with {rem} remaining reports {:?}", it.size_hint())));
        }
        if it.clone() != it {
            d.push(Divergence::new(format!("{name}-clone-not-equal"), format!("state {lo}..{hi}")));
        }
        if it.clone().collect::<Vec<T>>() != all[lo..hi] {
            d.push(Divergence::new(format!("{name}-remaining-sequence-wrong"), format!("state {lo}..{hi}")));
        }
        // consuming adaptors with their own specialisations
        if it.clone().last() != all[lo..hi].last().copied() || it.clone().count() != rem || it.clone().rev().last() != all[lo..hi].first().copied() || it.clone().fold(0usize, |a, _| a + 1) != rem {
            d.push(Divergence::new(format!("{name}-last-count-fold-wrong"), format!("state {lo}..{hi}: last {:?}, count {}", it.clone().last(), it.clone().count())));
        }
        if it.clone().rev().collect::<Vec<T>>() != all[lo..hi].iter().rev().copied().collect::<Vec<T>>() {
            d.push(Divergence::new(format!("{name}-reverse-sequence-wrong"), format!("state {lo}..{hi}")));
        }
        let mut ops = vec![ItOp::Next, ItOp::NextBack];
        for k in 0..=rem + 1 {
            ops.push(ItOp::Nth(k));
            ops.push(ItOp::NthBack(k));
        }
        for big in big_skips() {
            ops.push(ItOp::Nth(big));
            ops.push(ItOp::NthBack(big));
        }
        for op in ops {
            *n += 1;
            let mut j = it.clone();
            let (got, want, nlo, nhi) = match op {
                ItOp::Next => (j.next(), all[lo..hi].first().copied(), (lo + 1).min(hi), hi),
                ItOp::NextBack => (j.next_back(), all[lo..hi].last().copied(), lo, hi.max(lo + 1) - 1),
                ItOp::Nth(k) => {
                    if k < rem {
                        (j.nth(k), Some(all[lo + k]), lo + k + 1, hi)
                    } else {
                        (j.nth(k), None, hi, hi)
                    }
                }
                ItOp::NthBack(k) => {
                    if k < rem {
                        (j.nth_back(k), Some(all[hi - 1 - k]), lo, hi - 1 - k)
                    } else {
                        (j.nth_back(k), None, lo, lo)
                    }
                }
            };
            let (nlo, nhi) = if rem == 0 { (lo, hi) } else { (nlo, nhi) };
            if got != want {
                d.push(Divergence::new(format!("{name}-iterator-wrong-item"), format!("{name} state {lo}..{hi} {op:?}: {got:?}, slice iterator gives {want:?}")));
                continue;
            }
            // the state after the operation, observed through what it still yields
            if j.clone().collect::<Vec<T>>() != all[nlo..nhi] {
                d.push(Divergence::new(format!("{name}-iterator-wrong-state-after-op"), format!("{name} state {lo}..{hi} {op:?}: remaining {:?}, slice iterator has {:?}", j.clone().collect::<Vec<T>>(), &all[nlo..nhi])));
                continue;
            }
            // canonical key for empty states so the search closes
            let key = if nlo == nhi { (nlo, nhi) } else { (nlo, nhi) };
            if !seen.contains_key(&key) {
                seen.insert(key, j);
                queue.push(key);
            }
        }
    }
    seen.len()
}

fn explore_forward<I, T>(name: &str, fresh: I, all: &[T], d: &mut Vec<Divergence>, n: &mut u64) -> usize
where
    I: Iterator<Item = T> + Clone + PartialEq + std::fmt::Debug,
    T: PartialEq + Copy + std::fmt::Debug,
{
    // forward-only iterators: every suffix state, ops next / nth(k) / size_hint / clone
    let len = all.len();
    let mut it = fresh;
    let mut states = 0;
    for lo in 0..=len {
        states += 1;
        let rem = len - lo;
        *n += 1;
        if it.size_hint() != (rem, Some(rem)) {
            d.push(Divergence::new(format!("{name}-size_hint-wrong"), format!("{name} with {rem} remaining reports {:?}", it.size_hint())));
        }
        if it.clone().last() != all[lo..].last().copied() || it.clone().count() != rem || it.clone().fold(0usize, |a, _| a + 1) != rem {
            d.push(Divergence::new(format!("{name}-last-count-fold-wrong"), format!("state {lo}..: last {:?}, count {}", it.clone().last(), it.clone().count())));
        }
        if it.clone() != it || it.clone().collect::<Vec<T>>() != all[lo..] {
            d.push(Divergence::new(format!("{name}-remaining-sequence-wrong"), format!("state {lo}..")));
        }
        for k in (0..=rem + 1).chain(big_skips()) {
            *n += 1;
            let mut j = it.clone();
            let got = j.nth(k);
            let want = if k < rem { Some(all[lo + k]) } else { None };
            let after = if k < rem { lo + k + 1 } else { len };
            if got != want || j.collect::<Vec<T>>() != all[after..] {
                d.push(Divergence::new(format!("{name}-nth-wrong"), format!("{name} state {lo}.. nth({k})")));
            }
        }
        let got = it.next();
        if got != all.get(lo).copied() {
            d.push(Divergence::new(format!("{name}-iterator-wrong-item"), format!("{name} state {lo}.. next() = {got:?}")));
        }
    }
    // fused: next after the end stays None
    if it.next().is_some() || it.next().is_some() {
        d.push(Divergence::new(format!("{name}-not-fused"), name.to_string()));
    }
    states
}

pub fn c19_all(tier: Tier) -> (u64, u64, Vec<Divergence>) {
    let mut d = vec![];
    let mut n = 0u64;
    c19_values(&mut d, &mut n);
    c19_short_parsers(&mut d, &mut n);
    c19_moves(tier, &mut d, &mut n);
    c19_substitutions(tier, &mut d, &mut n);
    let mut states = 0;
    states += explore_double_ended("Color::all", Color::all(), &[Color::White, Color::Black], &mut d, &mut n);
    states += explore_double_ended("Side::all", Side::all(), &[Side::King, Side::Queen], &mut d, &mut n);
    states += explore_double_ended("Piece::all", Piece::all(), &[Piece::Pawn, Piece::Knight, Piece::Bishop, Piece::Rook, Piece::Queen, Piece::King], &mut d, &mut n);
    let files: Vec<File> = (0..8).map(|i| File::from_u8(i).unwrap()).collect();
    let ranks: Vec<Rank> = (0..8).map(|i| Rank::from_u8(i).unwrap()).collect();
    states += explore_double_ended("File::all", File::all(), &files, &mut d, &mut n);
    states += explore_double_ended("Rank::all", Rank::all(), &ranks, &mut d, &mut n);
    let squares: Vec<Pos> = (0..64).map(pos).collect();
    states += explore_forward("Pos::all", Pos::all(), &squares, &mut d, &mut n);
    for i in 0..8u8 {
        let f: Vec<Pos> = (0..8).map(|k| pos(k * 8 + i)).collect();
        let r: Vec<Pos> = (0..8).map(|k| pos(i * 8 + k)).collect();
        states += explore_forward("File::iter", File::from_u8(i).unwrap().iter(), &f, &mut d, &mut n);
        states += explore_forward("Rank::iter", Rank::from_u8(i).unwrap().iter(), &r, &mut d, &mut n);
    }
    (n, states as u64, d)
}

pub fn run_c19(args: &Args) -> i32 {
    let report = Report::new("C19", args.tier, args.seed, "exploration");
    let (n, states, d) = c19_all(args.tier);
    for x in &d {
        report.record(std::slice::from_ref(x), || json!({"kind": "text-forms"}));
    }
    report.finish(
        json!({
            "evaluations": n,
            "distinct_nontrivial": 64 + 8 + 8 + 4096 + states,
            "rule": "index conversions on all 256 bytes; all 64 squares / 8 files / 8 ranks for composition, neighbours, flips, text round trips; File/Rank/Piece/PromotionPiece/Pos parsers on every byte string of length 0-2 (all 256 byte values) and length 3 over a 34-symbol alphabet; ChessMove parser on all strings of length 0-5 (thorough: 0-6) over the alphabet a-h A-H 1-8 - ` @ i I 0 9 space 0x80 0xe1 (34^5 = 45 435 424 five-byte strings); Display->parse for all 4096 non-promotion moves; enumerating iterators explored to closure as state machines (ops next, next_back, last, count, fold, nth(k), nth_back(k) for k <= len+1 and usize::MAX and values around 2^8, 2^16, 2^32, 2^48, 2^63, size_hint, clone) against slice semantics; move strings assembled from square tokens, separator runs (up to ten dashes) and tails; every byte position of all 3*4096 valid move texts replaced by each of the 256 byte values; every char position of the valid texts of each FromStr parser replaced by (and prefixed / suffixed with) every non-ASCII char below U+3000 and in U+FF00-FFFF (thorough: every Unicode scalar value), plus sign / zero / blank decorations. Non-trivial = distinct values with a text form + iterator states.",
            "iterator_states": states,
            "exhaustive": true,
            "samples": [{"input": "e2-e4", "parsed": "e2e4"}, {"input_hex": "6532e134", "parsed": Value::Null}],
        }),
        &["accepted spellings are defined by the property text: file letter either case, rank digit 1-8, moves as e2e4 / e2-e4"],
    )
}


fn parse_score(s: &str) -> Score {
    let num = |s: &str| s.trim_end_matches(')').split('(').nth(1).unwrap_or("0").to_string();
    if s == "Min" {
        Score::Min
    } else if s == "Max" {
        Score::Max
    } else if s.starts_with("BlackMateIn") {
        Score::BlackMateIn(num(s).parse().unwrap())
    } else if s.starts_with("WhiteMateIn") {
        Score::WhiteMateIn(num(s).parse().unwrap())
    } else {
        Score::Raw(num(s).parse().unwrap())
    }
}

pub fn replay_c14(case: &Value) -> Vec<Divergence> {
    c14_pair(parse_score(case["a"].as_str().unwrap()), parse_score(case["b"].as_str().unwrap()))
}

pub fn replay_c16(case: &Value) -> Vec<Divergence> {
    let m = case["move"].as_str().unwrap();
    let mv = if m == "none" { None } else { Some(real_mv(refchess::Mv::parse(m).unwrap())) };
    c16_case(mv, parse_score(case["score"].as_str().unwrap()))
}
