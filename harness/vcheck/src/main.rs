//! vcheck — one binary, one sub-command per property.
//!   vcheck <C01..C20> --tier quick|thorough
//!   vcheck replay <file>
//!   vcheck selftest [--deep]
//!   vcheck worker <driver> ...      (C07, trapping build only)
//! exit 0 = held on everything explored; 1 = VIOLATION printed; 2 = machinery failure.

mod bitboards;
mod common;
mod crash;
mod explore;
mod fenfuzz;
mod mgen;
mod oracles;
mod plugin;
mod positions;
mod roots;
mod search;
mod small;
mod tables;
mod tracing20;

use common::*;
use serde_json::{json, Value};

pub struct Args {
    pub tier: Tier,
    pub seed: u64,
    pub rest: Vec<String>,
}

fn parse_args(argv: &[String]) -> Args {
    let mut tier = match std::env::var("VERIF_TIER").as_deref() {
        Ok("thorough") => Tier::Thorough,
        _ => Tier::Quick,
    };
    let seed = std::env::var("VERIF_SEED").ok().and_then(|s| s.parse::<i64>().ok()).map(|v| v as u64).unwrap_or(0);
    let mut rest = vec![];
    let mut i = 0;
    while i < argv.len() {
        match argv[i].as_str() {
            "--tier" => {
                i += 1;
                tier = match argv.get(i).map(|s| s.as_str()) {
                    Some("quick") => Tier::Quick,
                    Some("thorough") => Tier::Thorough,
                    _ => machinery_failure("--tier quick|thorough"),
                };
            }
            other => rest.push(other.to_string()),
        }
        i += 1;
    }
    Args { tier, seed, rest }
}

fn gate() {
    if let Err(e) = refchess::self_test(false) {
        machinery_failure(&format!("reference self-test failed: {e}"));
    }
    let sc = roots::load_scenarios();
    roots::validate_scenarios_against_reference(&sc);
    roots::validate_fixed_fens();
}

pub fn dispatch(cmd: &str, args: &Args) -> i32 {
    if cmd.len() == 3 && cmd.starts_with('C') {
        // a crash of the implementation inside a check is a verdict, not a dead harness
        let track = matches!(cmd, "C01" | "C02" | "C03" | "C04" | "C05" | "C10" | "C11" | "C12" | "C13" | "C15" | "C17");
        install_fatal_verdict(cmd, track);
    }
    match cmd {
        "C01" | "C02" | "C03" | "C04" | "C05" => {
            gate();
            positions::run(cmd, args)
        }
        "C06" => {
            gate();
            fenfuzz::run_c06(args)
        }
        "C07" => crash::run_c07(args),
        "C08" => tables::run_c08(args),
        "C09" => tables::run_c09(args),
        "C10" => {
            gate();
            mgen::run_c10(args)
        }
        "C11" => {
            gate();
            search::run_c11(args)
        }
        "C12" => {
            gate();
            search::run_c12(args)
        }
        "C13" => {
            gate();
            search::run_c13(args)
        }
        "C14" => small::run_c14(args),
        "C15" => {
            gate();
            plugin::run_c15(args)
        }
        "C16" => small::run_c16(args),
        "C17" => {
            gate();
            small::run_c17(args)
        }
        "C18" => bitboards::run_c18(args),
        "C19" => small::run_c19(args),
        "C20" => tracing20::run_c20(args),
        _ => machinery_failure(&format!("unknown command {cmd}")),
    }
}

pub fn replay_dispatch(prop: &str, case: &Value) -> Vec<Divergence> {
    if case["kind"].as_str() == Some("fatal") {
        return crash::replay_fatal(case);
    }
    match prop {
        "C01" | "C02" | "C03" | "C04" | "C05" => positions::replay_case(prop, case),
        "C06" => fenfuzz::replay_c06(case),
        "C07" => crash::replay_c07(case),
        "C08" => tables::replay_c08(case),
        "C09" => tables::c09_all().2,
        "C10" => mgen::replay_c10(case),
        "C11" | "C12" | "C13" => search::replay(prop, case),
        "C14" => small::replay_c14(case),
        "C15" => plugin::replay_c15(case),
        "C16" => small::replay_c16(case),
        "C17" => small::c17_walk().divs.into_iter().map(|x| x.0).collect(),
        "C18" => bitboards::replay_c18(case),
        "C19" => small::c19_all(Tier::Quick).2,
        "C20" => tracing20::replay_c20(case),
        _ => machinery_failure(&format!("no replayer for {prop}")),
    }
}

fn main() {
    let argv: Vec<String> = std::env::args().skip(1).collect();
    if argv.is_empty() {
        machinery_failure("usage: vcheck <property|replay|selftest> ...");
    }
    let cmd = argv[0].clone();
    let args = parse_args(&argv[1..]);
    let code = match cmd.as_str() {
        "selftest" => {
            let deep = args.rest.iter().any(|a| a == "--deep");
            match refchess::self_test(deep) {
                Ok(()) => {
                    gate();
                    positions::cross_check_oracles(deep);
                    println!("reference self-test ok (deep={deep})");
                    0
                }
                Err(e) => machinery_failure(&e),
            }
        }
        "replay" => {
            gate();
            replay(&args)
        }
        "worker" => {
            let Some(d) = args.rest.first().cloned() else { machinery_failure("worker <driver>") };
            crash::worker_main(&d, &args)
        }
        "worker-case" => {
            let Some(js) = args.rest.first().cloned() else { machinery_failure("worker-case <json>") };
            crash::worker_case(&js)
        }
        other => dispatch(other, &args),
    };
    std::process::exit(code);
}

fn replay(args: &Args) -> i32 {
    let Some(path) = args.rest.first() else { machinery_failure("replay <file>") };
    let text = std::fs::read_to_string(path).unwrap_or_else(|e| machinery_failure(&format!("{path}: {e}")));
    let v: Value = serde_json::from_str(&text).unwrap_or_else(|e| machinery_failure(&format!("{path}: {e}")));
    let prop = v["property"].as_str().unwrap_or("").to_string();
    let class = v["class"].as_str().unwrap_or("").to_string();
    let case = &v["case"];
    // a replay is executed twice and must give identical observations
    let a = replay_dispatch(&prop, case);
    let b = replay_dispatch(&prop, case);
    let fmt = |d: &[Divergence]| d.iter().map(|x| format!("{} | {}", x.class, x.detail)).collect::<Vec<_>>();
    if fmt(&a) != fmt(&b) {
        machinery_failure("replay is not deterministic: two executions observed different things");
    }
    for d in &a {
        println!("observed: {} | {}", d.class, d.detail);
    }
    if a.iter().any(|d| d.class == class) {
        println!("VIOLATION property={prop} replay={path}");
        println!("{}", json!({"reproduced": true, "class": class}));
        1
    } else {
        println!("not reproduced: class {class} was not observed");
        0
    }
}
