//! C20: the per-thread tracing override is isolated from other threads.
//!
//! Engine A (here): operation-granularity exploration on real OS threads (thread-locals are per
//! OS thread, so no cooperative runtime can host this): two worker threads are driven in
//! lock-step by the explorer.  BFS over the reference states; from each state's shortest history
//! every (thread, op) followed by every suffix up to a bound, each execution on fresh threads;
//! after every step both threads report `is_enabled()`.
//! Engine B (harness-loom/): the real source compiled against loom types, every interleaving of
//! the atomic steps inside the operations, linearizability oracle.

use crate::common::*;
use crate::Args;
use serde_json::{json, Value};
use std::collections::{BTreeMap, VecDeque};

#[derive(Clone, Copy, Debug, PartialEq, Eq, PartialOrd, Ord)]
pub enum TOp {
    Enable,
    Disable,
    Toggle,
    LocalEnable,
    LocalDisable,
    LocalToggle,
    LocalTake,
    Restore,
    /// `let _ = local_take();` – the saved override is thrown away
    TakeDiscard,
    /// a second token slot of the same thread (two saved overrides alive at once)
    Take2,
    Restore2,
}
/// every operation the worker understands (command codes); the main exploration uses `OPS`
pub const ALL_OPS: [TOp; 11] = [TOp::Enable, TOp::Disable, TOp::Toggle, TOp::LocalEnable, TOp::LocalDisable, TOp::LocalToggle, TOp::LocalTake, TOp::Restore, TOp::TakeDiscard, TOp::Take2, TOp::Restore2];
pub const OPS: [TOp; 9] = [TOp::Enable, TOp::Disable, TOp::Toggle, TOp::LocalEnable, TOp::LocalDisable, TOp::LocalToggle, TOp::LocalTake, TOp::Restore, TOp::TakeDiscard];

#[derive(Clone, Copy, Debug, PartialEq, Eq, PartialOrd, Ord)]
pub enum Flag {
    Global,
    Enabled,
    Disabled,
}

#[derive(Clone, Copy, Debug, PartialEq, Eq, PartialOrd, Ord)]
pub struct RefState {
    pub global: bool,
    pub local: [Flag; 2],
    pub token: [Option<Flag>; 2],
    pub token2: [Option<Flag>; 2],
}

impl RefState {
    pub fn initial() -> Self {
        RefState { global: true, local: [Flag::Global; 2], token: [None; 2], token2: [None; 2] }
    }
    pub fn view(&self, t: usize) -> bool {
        match self.local[t] {
            Flag::Global => self.global,
            Flag::Enabled => true,
            Flag::Disabled => false,
        }
    }
    pub fn apply(&mut self, t: usize, op: TOp) {
        let toggle = |f: Flag| match f {
            Flag::Global => Flag::Global,
            Flag::Enabled => Flag::Disabled,
            Flag::Disabled => Flag::Enabled,
        };
        match op {
            TOp::Enable => {
                self.local[t] = Flag::Enabled;
                self.global = true;
            }
            TOp::Disable => {
                self.local[t] = Flag::Disabled;
                self.global = false;
            }
            TOp::Toggle => {
                self.local[t] = toggle(self.local[t]);
                self.global = !self.global;
            }
            TOp::LocalEnable => self.local[t] = Flag::Enabled,
            TOp::LocalDisable => self.local[t] = Flag::Disabled,
            TOp::LocalToggle => self.local[t] = toggle(self.local[t]),
            TOp::LocalTake => {
                self.token[t] = Some(self.local[t]);
                self.local[t] = Flag::Global;
            }
            TOp::Restore => {
                if let Some(f) = self.token[t].take() {
                    self.local[t] = f;
                }
            }
            TOp::TakeDiscard => self.local[t] = Flag::Global,
            TOp::Take2 => {
                self.token2[t] = Some(self.local[t]);
                self.local[t] = Flag::Global;
            }
            TOp::Restore2 => {
                if let Some(f) = self.token2[t].take() {
                    self.local[t] = f;
                }
            }
        }
    }
}

/// command slot shared between the explorer and one worker thread (spin-waited: three threads
/// on a 16-core box, and a futex round trip per step dominated the run time otherwise)
struct Slot {
    /// 0 = idle, 1..=11 = index into ALL_OPS + 1, 20 = observe only, 21 = exit
    cmd: std::sync::atomic::AtomicU32,
    /// 0 = none, 1 = false, 2 = true
    obs: std::sync::atomic::AtomicU32,
}

thread_local! {
    static DELIVERED_EVENTS: std::cell::Cell<u32> = const { std::cell::Cell::new(0) };
    static DELIVERED_SPANS: std::cell::Cell<u32> = const { std::cell::Cell::new(0) };
}
/// counts what gets past `GlobalEnable` on the emitting thread
struct Counter;
impl<S: tracing::Subscriber> tracing_subscriber::Layer<S> for Counter {
    fn on_event(&self, _e: &tracing::Event<'_>, _c: tracing_subscriber::layer::Context<'_, S>) {
        DELIVERED_EVENTS.with(|c| c.set(c.get() + 1));
    }
    fn on_new_span(&self, _a: &tracing::span::Attributes<'_>, _i: &tracing::span::Id, _c: tracing_subscriber::layer::Context<'_, S>) {
        DELIVERED_SPANS.with(|c| c.set(c.get() + 1));
    }
}
/// when set, every observation also emits one event and one span through
/// `registry().with(GlobalEnable).with(Counter)` (per-callsite interest cache rebuilt first) and
/// reports whether they were delivered
static OBSERVE_LAYER: std::sync::atomic::AtomicBool = std::sync::atomic::AtomicBool::new(false);

/// 1 + (is_enabled) + 2*(event delivered) + 4*(span delivered); without the layer the last two copy the first
fn observe() -> u32 {
    let v = tracing_enabled::is_enabled();
    if !OBSERVE_LAYER.load(std::sync::atomic::Ordering::Relaxed) {
        return 1 + if v { 7 } else { 0 };
    }
    tracing::callsite::rebuild_interest_cache();
    let (e0, s0) = (DELIVERED_EVENTS.with(|c| c.get()), DELIVERED_SPANS.with(|c| c.get()));
    tracing::info!("c20 probe event");
    {
        let _span = tracing::info_span!("c20 probe span");
    }
    let ev = DELIVERED_EVENTS.with(|c| c.get()) != e0;
    let sp = DELIVERED_SPANS.with(|c| c.get()) != s0;
    1 + v as u32 + 2 * ev as u32 + 4 * sp as u32
}

fn worker(slot: std::sync::Arc<Slot>) {
    use std::sync::atomic::Ordering::{Acquire, Release};
    use tracing_subscriber::layer::SubscriberExt;
    let _guard = if OBSERVE_LAYER.load(std::sync::atomic::Ordering::Relaxed) {
        Some(tracing::subscriber::set_default(tracing_subscriber::registry().with(tracing_enabled::GlobalEnable).with(Counter)))
    } else {
        None
    };
    let mut token: Option<tracing_enabled::LocalEnableState> = None;
    let mut token2: Option<tracing_enabled::LocalEnableState> = None;
    // first report: the view of a fresh thread
    slot.obs.store(observe(), Release);
    let mut idle = 0u32;
    loop {
        let c = slot.cmd.swap(0, Acquire);
        if c == 0 {
            idle += 1;
            if idle > 200 {
                // a busy machine must not turn the lock-step into a crawl
                std::thread::yield_now();
            } else {
                std::hint::spin_loop();
            }
            continue;
        }
        idle = 0;
        match c {
            21 => return,
            20 => {}
            n => match ALL_OPS[(n - 1) as usize] {
                TOp::Enable => { let _ = tracing_enabled::enable(); }
                TOp::Disable => { let _ = tracing_enabled::disable(); }
                TOp::Toggle => { let _ = tracing_enabled::toggle(); }
                TOp::LocalEnable => { let _ = tracing_enabled::local_enable(); }
                TOp::LocalDisable => { let _ = tracing_enabled::local_disable(); }
                TOp::LocalToggle => { let _ = tracing_enabled::local_toggle(); }
                TOp::LocalTake => token = Some(tracing_enabled::local_take()),
                TOp::Restore => {
                    if let Some(t) = token.take() {
                        let _ = tracing_enabled::restore(t);
                    }
                }
                TOp::TakeDiscard => {
                    let _ = tracing_enabled::local_take();
                }
                TOp::Take2 => token2 = Some(tracing_enabled::local_take()),
                TOp::Restore2 => {
                    if let Some(t) = token2.take() {
                        let _ = tracing_enabled::restore(t);
                    }
                }
            },
        }
        slot.obs.store(observe(), Release);
    }
}

/// last observation in which is_enabled(), event delivery and span delivery disagreed (bit set)
static LAYER_MISMATCH: std::sync::atomic::AtomicU32 = std::sync::atomic::AtomicU32::new(0);

fn take_obs(slot: &Slot) -> bool {
    let mut idle = 0u32;
    loop {
        let v = slot.obs.swap(0, std::sync::atomic::Ordering::Acquire);
        if v != 0 {
            let bits = v - 1;
            // verdict: an EVENT must not get past the layer while the thread's own view is off. (That
            // events are delivered while it is on, and what happens to spans, is a design choice of the
            // layer - level hints, spans kept for context - that the property does not fix.)
            if bits & 1 == 0 && bits & 2 != 0 {
                LAYER_MISMATCH.store(bits | 8, std::sync::atomic::Ordering::Relaxed);
            }
            return bits & 1 == 1;
        }
        idle += 1;
        if idle > 200 {
            std::thread::yield_now();
        } else {
            std::hint::spin_loop();
        }
    }
}

fn send(slot: &Slot, op: Option<TOp>) -> bool {
    let code = match op {
        None => 20,
        Some(o) => 1 + ALL_OPS.iter().position(|x| *x == o).unwrap() as u32,
    };
    slot.cmd.store(code, std::sync::atomic::Ordering::Release);
    take_obs(slot)
}

/// run one history on two fresh OS threads; returns the first divergence
pub fn run_history(hist: &[(usize, TOp)]) -> Option<Divergence> {
    run_history_mode(hist, false)
}

/// `late`: each worker thread is only created when its first operation is due, so that threads are
/// born in every reference state (a fresh thread has no override and must see the global setting
/// of that moment); until then the unborn thread is not observed
pub fn run_history_mode(hist: &[(usize, TOp)], late: bool) -> Option<Divergence> {
    // put the process-wide flag into the reference's initial state; the explorer thread's own
    // override is irrelevant (it never asks for its view)
    let _ = tracing_enabled::enable();
    let slots: Vec<std::sync::Arc<Slot>> = (0..2).map(|_| std::sync::Arc::new(Slot { cmd: 0.into(), obs: 0.into() })).collect();
    let mut handles: Vec<Option<std::thread::JoinHandle<()>>> = vec![None, None];
    let spawn = |t: usize| {
        let s = slots[t].clone();
        std::thread::spawn(move || worker(s))
    };
    if !late {
        for t in 0..2 {
            handles[t] = Some(spawn(t));
        }
    }
    let mut rs = RefState::initial();
    let mut result = None;
    let describe = |i: usize| hist[..=i].iter().map(|(t, o)| format!("T{t}.{o:?}")).collect::<Vec<_>>().join(" ");
    // fresh threads see the global value
    for t in 0..2 {
        if late {
            continue;
        }
        let v = take_obs(&slots[t]);
        if v != rs.view(t) {
            result = Some(Divergence::new("fresh-thread-view-wrong", format!("thread {t} starts with view {v}")));
        }
    }
    if result.is_none() {
        for (i, &(t, op)) in hist.iter().enumerate() {
            if handles[t].is_none() {
                handles[t] = Some(spawn(t));
                let v = take_obs(&slots[t]);
                if v != rs.view(t) {
                    result = Some(Divergence::new("fresh-thread-view-wrong", format!("[{}]: thread {t} is born with view {v}, the global setting is {}", if i == 0 { String::new() } else { describe(i - 1) }, rs.global)));
                    break;
                }
            }
            rs.apply(t, op);
            let mine = send(&slots[t], Some(op));
            // the other thread only observes (if it exists yet)
            let other = if handles[1 - t].is_some() { send(&slots[1 - t], None) } else { rs.view(1 - t) };
            if mine != rs.view(t) {
                result = Some(Divergence::new(
                    format!("own-view-wrong-after:{op:?}"),
                    format!("[{}]: thread {t} sees {mine}, reference {} (state {rs:?})", describe(i), rs.view(t)),
                ));
                break;
            }
            if other != rs.view(1 - t) {
                let leaked = rs.local[1 - t] != Flag::Global;
                result = Some(Divergence::new(
                    if leaked { format!("other-threads-override-changed-by:{op:?}") } else { format!("global-setting-wrong-after:{op:?}") },
                    format!("[{}]: thread {} sees {other}, reference {} (state {rs:?})", describe(i), 1 - t, rs.view(1 - t)),
                ));
                break;
            }
        }
    }
    for s in &slots {
        s.cmd.store(21, std::sync::atomic::Ordering::Release);
    }
    for h in handles.into_iter().flatten() {
        let _ = h.join();
    }
    result
}

fn hist_json(h: &[(usize, TOp)]) -> Value {
    json!({"kind": "tracing-history", "ops": h.iter().map(|(t, o)| json!([t, format!("{o:?}")])).collect::<Vec<_>>()})
}

pub fn replay_c20(case: &Value) -> Vec<Divergence> {
    if case["kind"].as_str() == Some("loom") {
        return loom_run(Tier::Quick).1;
    }
    let late = case["late"].as_bool().unwrap_or(false);
    if case["layer"].as_bool().unwrap_or(false) {
        OBSERVE_LAYER.store(true, std::sync::atomic::Ordering::Relaxed);
    }
    let h: Vec<(usize, TOp)> = case["ops"]
        .as_array()
        .unwrap()
        .iter()
        .map(|x| (x[0].as_u64().unwrap() as usize, ALL_OPS.iter().copied().find(|o| format!("{o:?}") == x[1].as_str().unwrap()).unwrap()))
        .collect();
    LAYER_MISMATCH.store(0, std::sync::atomic::Ordering::Relaxed);
    let mut out: Vec<Divergence> = run_history_mode(&h, late).into_iter().collect();
    let mm = LAYER_MISMATCH.load(std::sync::atomic::Ordering::Relaxed);
    if OBSERVE_LAYER.swap(false, std::sync::atomic::Ordering::Relaxed) {
        out = out.into_iter().map(|d| Divergence::new(format!("through-the-layer:{}", d.class), d.detail)).collect();
        if mm != 0 {
            out.push(Divergence::new("layer-delivers-an-event-although-the-threads-view-is-off", format!("is_enabled() = {}, event delivered = {}, span delivered = {}", mm & 1 == 1, mm & 2 == 2, mm & 4 == 4)));
        }
    }
    out
}

pub const LOOM_BIN: &str = "/verif/target/loom/release/c20loom";

/// Engine B: run the loom explorer (separate binary) and collect its report
fn loom_run(tier: Tier) -> (Value, Vec<Divergence>) {
    match loom_try(tier) {
        Ok(x) => x,
        Err(e) => machinery_failure(&e),
    }
}

fn loom_try(tier: Tier) -> Result<(Value, Vec<Divergence>), String> {
    if !std::path::Path::new(LOOM_BIN).exists() {
        return Err("loom explorer not built (./check C20 builds it)".into());
    }
    let out = std::process::Command::new(LOOM_BIN)
        .arg(tier.name())
        .env("LOOM_MAX_PREEMPTIONS", "3")
        .output()
        .map_err(|e| format!("cannot run {LOOM_BIN}: {e}"))?;
    let stdout = String::from_utf8_lossy(&out.stdout);
    let Some(line) = stdout.lines().find(|l| l.starts_with("LOOM-REPORT ")) else {
        return Err(format!("loom explorer gave no report (status {:?}): {}", out.status.code(), String::from_utf8_lossy(&out.stderr).lines().filter(|l| l.contains("panicked") || l.contains("violation")).take(3).collect::<Vec<_>>().join(" | ")));
    };
    let v: Value = serde_json::from_str(&line["LOOM-REPORT ".len()..]).map_err(|e| format!("loom report: {e}"))?;
    let mut d = vec![];
    for f in v["failures"].as_array().cloned().unwrap_or_default() {
        d.push(Divergence::new(format!("loom:{}", f["class"].as_str().unwrap_or("?")), f["detail"].as_str().unwrap_or("").to_string()));
    }
    Ok((v, d))
}

pub fn run_c20(args: &Args) -> i32 {
    let report = Report::new("C20", args.tier, args.seed, "model_checking");
    // engine B (a separate process) runs while engine A works
    let tier = args.tier;
    let engine_b = std::thread::spawn(move || loom_try(tier));
    // ---- engine A
    let suffix_len = args.tier.pick(1usize, 2);
    let mut shortest: BTreeMap<RefState, Vec<(usize, TOp)>> = BTreeMap::new();
    let mut alternatives: BTreeMap<RefState, Vec<Vec<(usize, TOp)>>> = BTreeMap::new();
    let mut queue = VecDeque::new();
    shortest.insert(RefState::initial(), vec![]);
    queue.push_back(RefState::initial());
    while let Some(s) = queue.pop_front() {
        let h = shortest[&s].clone();
        for t in 0..2 {
            for op in OPS {
                let mut n = s;
                n.apply(t, op);
                let mut hh = h.clone();
                hh.push((t, op));
                if !shortest.contains_key(&n) {
                    shortest.insert(n, hh);
                    queue.push_back(n);
                } else if n != s {
                    // other ways into the same reference state: the implementation may hold state the
                    // reference does not model, so a state is also entered through alternative histories
                    let a = alternatives.entry(n).or_insert_with(Vec::new);
                    if a.len() < 2 && !a.contains(&hh) && shortest[&n] != hh {
                        a.push(hh);
                    }
                }
            }
        }
    }
    let mut suffixes: Vec<Vec<(usize, TOp)>> = vec![vec![]];
    let mut layer: Vec<Vec<(usize, TOp)>> = vec![vec![]];
    for _ in 0..suffix_len {
        let mut next = vec![];
        for s in &layer {
            for t in 0..2 {
                for op in OPS {
                    let mut x = s.clone();
                    x.push((t, op));
                    next.push(x);
                }
            }
        }
        suffixes.extend(next.iter().cloned());
        layer = next;
    }
    let mut executions = 0u64;
    let mut cross_thread = 0u64;
    let mut steps = 0u64;
    let mut sample = vec![];
    for (_, h) in shortest.iter() {
        for t in 0..2 {
            for op in OPS {
                for suf in &suffixes {
                    let mut full = h.clone();
                    full.push((t, op));
                    full.extend(suf.iter().copied());
                    executions += 1;
                    steps += full.len() as u64;
                    if full.iter().any(|x| x.0 == 0) && full.iter().any(|x| x.0 == 1) {
                        cross_thread += 1;
                    }
                    if let Some(d) = run_history(&full) {
                        report.record(&[d], || hist_json(&full));
                    }
                    if executions == 1000 + args.seed % 5000 {
                        sample = full.clone();
                    }
                }
            }
        }
    }
    // alternative entry histories (quick: one per state with one following operation; thorough: two,
    // each followed by every operation and every suffix of length <= 1)
    let mut alt_runs = 0u64;
    for (_, alts) in alternatives.iter() {
        for (ai, h) in alts.iter().enumerate() {
            if args.tier == Tier::Quick && ai > 0 {
                continue;
            }
            for t in 0..2 {
                for op in OPS {
                    let sufs: Vec<Vec<(usize, TOp)>> = if args.tier == Tier::Quick { vec![vec![]] } else { suffixes.iter().filter(|x| x.len() <= 1).cloned().collect() };
                    for suf in sufs {
                        let mut full = h.clone();
                        full.push((t, op));
                        full.extend(suf.iter().copied());
                        executions += 1;
                        alt_runs += 1;
                        steps += full.len() as u64;
                        if full.iter().any(|x| x.0 == 0) && full.iter().any(|x| x.0 == 1) {
                            cross_thread += 1;
                        }
                        if let Some(d) = run_history(&full) {
                            report.record(&[d], || hist_json(&full));
                        }
                    }
                }
            }
        }
    }
    // threads born late: every state's shortest history followed by every (thread, op), each worker
    // created only when its first operation is due (a fresh thread must see the global setting of
    // that moment, whatever has happened before it existed)
    let mut late_runs = 0u64;
    for (_, h) in shortest.iter() {
        for t in 0..2 {
            for op in OPS {
                let mut full = h.clone();
                full.push((t, op));
                if !(full.iter().any(|x| x.0 == 0) && full.iter().any(|x| x.0 == 1)) {
                    continue;
                }
                executions += 1;
                late_runs += 1;
                cross_thread += 1;
                steps += full.len() as u64;
                if let Some(d) = run_history_mode(&full, true) {
                    report.record(&[d], || json!({"kind": "tracing-history", "late": true, "ops": full.iter().map(|(t, o)| json!([t, format!("{o:?}")])).collect::<Vec<_>>()}));
                }
            }
        }
    }
    // two saved overrides alive at once on one thread, restored in either order: every sequence of
    // length <= 5 (thorough 6) over {local_enable, local_disable, take into slot 1 / 2, restore from
    // slot 1 / 2} on thread 0, with the global setting left on or switched off by thread 1 first
    let mut token_runs = 0u64;
    {
        let alphabet = [TOp::LocalEnable, TOp::LocalDisable, TOp::LocalTake, TOp::Take2, TOp::Restore, TOp::Restore2];
        let depth = args.tier.pick(5usize, 6);
        let mut seqs: Vec<Vec<TOp>> = vec![vec![]];
        let mut layer: Vec<Vec<TOp>> = vec![vec![]];
        for _ in 0..depth {
            let mut next = vec![];
            for s in &layer {
                for op in alphabet {
                    let mut x = s.clone();
                    x.push(op);
                    next.push(x);
                }
            }
            layer = next;
        }
        seqs.extend(layer); // maximal sequences only: every prefix is observed on the way
        for q in seqs {
            // a sequence without both slots in use adds nothing to the main exploration
            if !(q.contains(&TOp::Take2) && q.contains(&TOp::LocalTake)) {
                continue;
            }
            for prefix in [vec![], vec![(1usize, TOp::Disable)]] {
                let mut full: Vec<(usize, TOp)> = prefix.clone();
                full.extend(q.iter().map(|&o| (0usize, o)));
                executions += 1;
                token_runs += 1;
                steps += full.len() as u64;
                if !prefix.is_empty() {
                    cross_thread += 1;
                }
                if let Some(d) = run_history(&full) {
                    report.record(&[d], || hist_json(&full));
                }
            }
        }
    }
    // the consumer of the view: `GlobalEnable` stacked under a counting layer in each worker thread;
    // after every step each thread emits one event and one span (interest cache rebuilt first, see
    // DESIGN 5b); an event must not be delivered while the thread's view is off
    let mut layer_runs = 0u64;
    {
        OBSERVE_LAYER.store(true, std::sync::atomic::Ordering::Relaxed);
        for (_, h) in shortest.iter() {
            for t in 0..2 {
                for op in OPS {
                    let mut full = h.clone();
                    full.push((t, op));
                    executions += 1;
                    layer_runs += 1;
                    steps += full.len() as u64;
                    LAYER_MISMATCH.store(0, std::sync::atomic::Ordering::Relaxed);
                    let r = run_history(&full);
                    let mm = LAYER_MISMATCH.load(std::sync::atomic::Ordering::Relaxed);
                    let mut ds = vec![];
                    if let Some(d) = r {
                        ds.push(Divergence::new(format!("through-the-layer:{}", d.class), d.detail));
                    }
                    if mm != 0 {
                        ds.push(Divergence::new(
                            "layer-delivers-an-event-although-the-threads-view-is-off",
                            format!("[{}]: is_enabled() = {}, event delivered = {}, span delivered = {}", full.iter().map(|(t, o)| format!("T{t}.{o:?}")).collect::<Vec<_>>().join(" "), mm & 1 == 1, mm & 2 == 2, mm & 4 == 4),
                        ));
                    }
                    if !ds.is_empty() {
                        report.record(&ds, || json!({"kind": "tracing-history", "layer": true, "ops": full.iter().map(|(t, o)| json!([t, format!("{o:?}")])).collect::<Vec<_>>()}));
                    }
                }
            }
        }
        OBSERVE_LAYER.store(false, std::sync::atomic::Ordering::Relaxed);
    }
    eprintln!("[C20] engine A: {layer_runs} executions observed through the GlobalEnable layer");
    eprintln!("[C20] engine A: {late_runs} executions with late-born threads, {token_runs} two-token executions");
    eprintln!("[C20] engine A: {alt_runs} executions through alternative entry histories");
    eprintln!("[C20] engine A: {} reference states, {executions} executions, {:.1}s", shortest.len(), report.start.elapsed().as_secs_f64());
    // ---- engine B
    let (lv, ld) = match engine_b.join().unwrap_or_else(|_| Err("engine B launcher panicked".into())) {
        Ok(x) => x,
        Err(e) => {
            // engine B could not run on this tree. If engine A already holds a violation, that
            // verdict stands (with engine B's failure noted); otherwise this is a machinery failure.
            if report.divergence_classes() == 0 {
                machinery_failure(&e);
            }
            eprintln!("MACHINERY-NOTE: engine B did not complete: {e}");
            (json!({"programs": 0, "schedules": 0, "failed": e}), vec![])
        }
    };
    for d in &ld {
        report.record(std::slice::from_ref(d), || json!({"kind": "loom"}));
    }
    let schedules = lv["schedules"].as_u64().unwrap_or(0);
    if schedules < 1000 && report.divergence_classes() == 0 {
        machinery_failure("loom explorer covered fewer than 1000 schedules: vacuous");
    }
    report.finish(
        json!({
            "states": shortest.len() as u64 + lv["programs"].as_u64().unwrap_or(0),
            "transitions": steps + schedules,
            "traces_validated_against_impl": executions + schedules,
            "evaluations": executions + schedules,
            "distinct_nontrivial": cross_thread,
            "rule": "non-trivial = engine-A histories in which BOTH threads perform operations (the isolation claim is about cross-thread effects). engine A: BFS over the reference states (global flag, two overrides, <=1 saved token per thread); from each state's shortest history every (thread, op) of the 9 operations (the 8 public ones, local_take both with its token kept and with it discarded) followed by every suffix of length <= 1 (thorough 2), every state is additionally entered through one (thorough: two) alternative history, because the implementation may hold state the reference does not model; each history executed on two fresh OS threads driven in lock-step, both threads' is_enabled() compared with the reference after every step; the shortest histories followed by every (thread, op) are repeated with each worker thread created only when its first operation is due (threads born in every reference state); every maximal sequence of length 5 (thorough 6) over {local_enable, local_disable, take into one of two token slots, restore from either} that uses both slots, with the global setting on and off (two saved overrides alive at once, restored in either order); the shortest histories followed by every (thread, op) are also observed through the consumer of the view, `GlobalEnable` stacked under a counting layer as each worker's default subscriber: one event per step (per-callsite interest cache rebuilt first) must not be delivered while the thread's view is off. engine B: loom on the unmodified tracing-enabled source (std shim exporting loom Cell / atomic / thread_local): every pair of programs of <= 2 operations (thorough: also 3-operation programs against <= 1-operation programs) on two loom threads, every interleaving loom's DPOR enumerates within the preemption bound, oracle = some sequential order respecting program order explains all observations and the final state.",
            "engine_a": {"reference_states": shortest.len(), "executions": executions, "steps": steps, "suffix_length": suffix_len},
            "engine_b": lv,
            "exhaustive": true,
            "samples": [hist_json(&sample)],
        }),
        &["engine A: operation granularity is complete because each operation touches one atomic at most once (checked by engine B)", "engine B: loom's model of the C11 memory model; the std shim re-exports std and replaces only Cell, AtomicBool and thread_local!"],
    )
}
