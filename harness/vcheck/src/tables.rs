//! C08 (slider lookup == ray casting for every ray-subset occupancy) and C09 (geometry tables and
//! constants == their definitions, and == what the generator computes).  Finite, enumerated
//! completely.

use crate::common::*;
use crate::Args;
use chess_bitboard::{BitBoard, Color, File, Pos, Rank};
use rayon::prelude::*;
use serde_json::json;

const ROOK_D: [(i8, i8); 4] = [(1, 0), (0, 1), (-1, 0), (0, -1)];
const BISHOP_D: [(i8, i8); 4] = [(1, 1), (-1, 1), (-1, -1), (1, -1)];

fn on(f: i8, r: i8) -> bool {
    (0..8).contains(&f) && (0..8).contains(&r)
}
fn bit(f: i8, r: i8) -> u64 {
    1u64 << (r * 8 + f)
}

/// squares on the rays from `s` (edges included)
fn rays(s: u8, dirs: &[(i8, i8); 4]) -> u64 {
    let (f, r) = ((s % 8) as i8, (s / 8) as i8);
    let mut m = 0;
    for (df, dr) in dirs {
        let (mut nf, mut nr) = (f + df, r + dr);
        while on(nf, nr) {
            m |= bit(nf, nr);
            nf += df;
            nr += dr;
        }
    }
    m
}

/// slide from `s` up to and including the first occupied square in each direction
fn cast(s: u8, dirs: &[(i8, i8); 4], occ: u64) -> u64 {
    let (f, r) = ((s % 8) as i8, (s / 8) as i8);
    let mut m = 0;
    for (df, dr) in dirs {
        let (mut nf, mut nr) = (f + df, r + dr);
        while on(nf, nr) {
            m |= bit(nf, nr);
            if occ & bit(nf, nr) != 0 {
                break;
            }
            nf += df;
            nr += dr;
        }
    }
    m
}

/// the k-th subset of the set bits of `mask` (pdep in software)
fn subset(mask: u64, k: u64) -> u64 {
    let mut out = 0;
    let mut m = mask;
    let mut i = 0;
    while m != 0 {
        let low = m & m.wrapping_neg();
        if k & (1 << i) != 0 {
            out |= low;
        }
        m ^= low;
        i += 1;
    }
    out
}

fn lookup(rook: bool, s: u8, occ: u64) -> u64 {
    let b = BitBoard::from_u64(occ);
    if rook {
        chess_lookup::rook_moves(pos(s), b).to_u64()
    } else {
        chess_lookup::bishop_moves(pos(s), b).to_u64()
    }
}

pub fn c08_case(rook: bool, s: u8, occ: u64) -> Vec<Divergence> {
    set_case(|| json!({"property": "C08", "case": {"kind": "slider", "rook": rook, "square": s, "occupancy": format!("{occ:#018x}")}}).to_string());
    let dirs = if rook { &ROOK_D } else { &BISHOP_D };
    let want = cast(s, dirs, occ);
    let got = std::panic::catch_unwind(|| lookup(rook, s, occ));
    let name = if rook { "rook" } else { "bishop" };
    match got {
        Ok(g) if g == want => vec![],
        Ok(g) => vec![Divergence::new(
            format!("{name}-lookup-differs-from-ray-cast"),
            format!("{name} on {} with occupancy {occ:#018x}: lookup {g:#018x}, ray cast {want:#018x}", refchess::sq_name(s)),
        )],
        Err(_) => vec![Divergence::new(
            format!("{name}-lookup-panics"),
            format!("{name} on {} with occupancy {occ:#018x}: lookup panicked (index out of range)", refchess::sq_name(s)),
        )],
    }
}

pub fn run_c08(args: &Args) -> i32 {
    let report = Report::new("C08", args.tier, args.seed, "exploration");
    silence_panics();
    let mut jobs = vec![];
    for rook in [true, false] {
        for s in 0..64u8 {
            jobs.push((rook, s));
        }
    }
    let thorough = args.tier == Tier::Thorough;
    let results: Vec<(u64, u64, u64)> = jobs
        .par_iter()
        .map(|&(rook, s)| {
            let dirs = if rook { &ROOK_D } else { &BISHOP_D };
            let ray = rays(s, dirs);
            let off = !ray & !(1u64 << s);
            let n = 1u64 << ray.count_ones();
            let mut cases = 0u64;
            let mut nontrivial = 0u64;
            let mut offray = 0u64;
            for k in 0..n {
                let occ = subset(ray, k);
                // (a) off-ray squares empty, (b) all occupied, own square empty / occupied
                for extra in [0, off, 1u64 << s, off | (1u64 << s)] {
                    let d = c08_case(rook, s, occ | extra);
                    cases += 1;
                    report.record(&d, || json!({"kind": "slider", "rook": rook, "square": s, "occupancy": format!("{:#018x}", occ | extra)}));
                }
                if occ != 0 {
                    nontrivial += 1;
                }
                // (d) every PAIR of off-ray squares occupied together (a mask with stray bits may need two
                //     of them set at once): quick under every 16th ray subset, thorough under every 2nd
                if (thorough && k % 2 == 0) || k % 16 == 0 {
                    let mut bits = vec![];
                    let mut m = off;
                    while m != 0 {
                        let low = m & m.wrapping_neg();
                        m ^= low;
                        bits.push(low);
                    }
                    for i in 0..bits.len() {
                        for j in (i + 1)..bits.len() {
                            let o = occ | bits[i] | bits[j];
                            // fast path without the bookkeeping of c08_case
                            let dirs = if rook { &ROOK_D } else { &BISHOP_D };
                            offray += 1;
                            if lookup(rook, s, o) != cast(s, dirs, o) {
                                let d = c08_case(rook, s, o);
                                report.record(&d, || json!({"kind": "slider", "rook": rook, "square": s, "occupancy": format!("{o:#018x}")}));
                            }
                        }
                    }
                }
                // (c) each single off-ray square toggled under every ray subset
                // under EVERY ray subset in both tiers (a stray mask bit can act through a carry for a
                // handful of subsets only): the answer must not depend on any single off-ray square
                {
                    let dirs = if rook { &ROOK_D } else { &BISHOP_D };
                    let mut m = off;
                    while m != 0 {
                        let low = m & m.wrapping_neg();
                        m ^= low;
                        offray += 1;
                        let o = occ | low;
                        let ok = std::panic::catch_unwind(|| lookup(rook, s, o) == cast(s, dirs, o)).unwrap_or(false);
                        if !ok {
                            let d = c08_case(rook, s, o);
                            report.record(&d, || json!({"kind": "slider", "rook": rook, "square": s, "occupancy": format!("{o:#018x}")}));
                        }
                    }
                }
            }
            (cases, nontrivial, offray)
        })
        .collect();
    restore_panics();
    let cases: u64 = results.iter().map(|r| r.0).sum();
    let nontrivial: u64 = results.iter().map(|r| r.1).sum();
    let offray: u64 = results.iter().map(|r| r.2).sum();
    let samples = vec![
        json!({"piece": "rook", "square": "d4", "occupancy": format!("{:#018x}", subset(rays(27, &ROOK_D), 0x155 + args.seed % 64)), "lookup": format!("{:#018x}", lookup(true, 27, subset(rays(27, &ROOK_D), 0x155 + args.seed % 64)))}),
        json!({"piece": "bishop", "square": "a1", "occupancy": format!("{:#018x}", subset(rays(0, &BISHOP_D), 0x2a)), "lookup": format!("{:#018x}", lookup(false, 0, subset(rays(0, &BISHOP_D), 0x2a)))}),
    ];
    report.finish(
        json!({
            "evaluations": cases + offray,
            "distinct_nontrivial": nontrivial,
            "rule": "for each of 64 squares x {rook, bishop}: every subset of the square's own rays (edge squares included), each with the off-ray squares empty / all occupied and the slider's own square empty / occupied; plus every single off-ray square toggled under every ray subset (both tiers) and every pair of off-ray squares occupied together (quick: every 16th subset, thorough: every 2nd). Non-trivial = distinct (piece, square, non-empty ray subset).",
            "ray_subset_cases": cases,
            "single_off_ray_toggles": offray,
            "exhaustive": true,
            "exhaustive_note": "exhaustive over ray-subset occupancies (the lookup is table[f(occ & mask)]); independence from off-ray squares is exhaustive per single off-ray bit and for all-off-ray-occupied, not per off-ray subset",
            "samples": samples,
        }),
        &["ray casting in (file, rank) arithmetic is the definition of a slider attack", "index-range: an out-of-range index panics in the checked flavour (C07) and is caught here as a panic"],
    )
}

// ------------------------------------------------------------------------------ C09

fn bb(s: impl IntoIterator<Item = (i8, i8)>) -> u64 {
    let mut m = 0;
    for (f, r) in s {
        if on(f, r) {
            m |= bit(f, r);
        }
    }
    m
}

fn aligned_step(a: u8, b: u8) -> Option<(i8, i8)> {
    let (af, ar, bf, br) = ((a % 8) as i8, (a / 8) as i8, (b % 8) as i8, (b / 8) as i8);
    let (df, dr) = (bf - af, br - ar);
    if a == b {
        return None;
    }
    if df == 0 || dr == 0 || df.abs() == dr.abs() {
        Some((df.signum(), dr.signum()))
    } else {
        None
    }
}

pub fn c09_all() -> (u64, u64, Vec<Divergence>) {
    let mut d = vec![];
    let mut n = 0u64;
    let mut nontrivial = 0u64;
    let mut expect = |name: &str, what: String, got: u64, want: u64| {
        n += 1;
        if want != 0 {
            nontrivial += 1;
        }
        if got != want {
            d.push(Divergence::new(format!("{name}-wrong"), format!("{name} {what}: {got:#018x}, definition {want:#018x}")));
        }
    };
    let knight = [(1, 2), (2, 1), (2, -1), (1, -2), (-1, -2), (-2, -1), (-2, 1), (-1, 2)];
    let king = [(1, 0), (1, 1), (0, 1), (-1, 1), (-1, 0), (-1, -1), (0, -1), (1, -1)];
    for s in 0..64u8 {
        let (f, r) = ((s % 8) as i8, (s / 8) as i8);
        let nm = refchess::sq_name(s);
        let p = pos(s);
        expect("knight_moves", nm.clone(), chess_lookup::knight_moves(p).to_u64(), bb(knight.iter().map(|(a, b)| (f + a, r + b))));
        expect("king_moves", nm.clone(), chess_lookup::king_moves(p).to_u64(), bb(king.iter().map(|(a, b)| (f + a, r + b))));
        expect("rook_rays", nm.clone(), chess_lookup::rook_rays(p).to_u64(), rays(s, &ROOK_D));
        expect("bishop_rays", nm.clone(), chess_lookup::bishop_rays(p).to_u64(), rays(s, &BISHOP_D));
        // generator agreement
        expect("generator-knight_moves", nm.clone(), chess_lookup_generator::knight_moves(p).to_u64(), chess_lookup::knight_moves(p).to_u64());
        expect("generator-king_moves", nm.clone(), chess_lookup_generator::king_moves(p).to_u64(), chess_lookup::king_moves(p).to_u64());
        expect("generator-rook_rays", nm.clone(), chess_lookup_generator::rook_rays(p).to_u64(), chess_lookup::rook_rays(p).to_u64());
        expect("generator-bishop_rays", nm.clone(), chess_lookup_generator::bishop_rays(p).to_u64(), chess_lookup::bishop_rays(p).to_u64());
        for (ci, color) in [Color::White, Color::Black].into_iter().enumerate() {
            let fwd: i8 = if ci == 0 { 1 } else { -1 };
            let start_rank = if ci == 0 { 1 } else { 6 };
            let att = bb([(f - 1, r + fwd), (f + 1, r + fwd)]);
            expect("pawn_attacks_moves", format!("{nm} {color:?}"), chess_lookup::pawn_attacks_moves(p, color).to_u64(), att);
            expect("generator-pawn_attacks", format!("{nm} {color:?}"), chess_lookup_generator::pawn_attacks(p)[ci].to_u64(), att);
            let q1 = bb([(f, r + fwd)]);
            let q2 = if r == start_rank { bb([(f, r + 2 * fwd)]) } else { 0 };
            expect("generator-pawn_quiets", format!("{nm} {color:?}"), chess_lookup_generator::pawn_quiets(p)[ci].to_u64(), q1 | q2);
            // the checked-in table itself (empty board) against the generator
            expect("table-pawn_quiets-vs-generator", format!("{nm} {color:?}"), chess_lookup::pawn_quiets(p, color, BitBoard::empty()).to_u64(), chess_lookup_generator::pawn_quiets(p)[ci].to_u64());
            expect("table-pawn_attacks-vs-generator", format!("{nm} {color:?}"), chess_lookup::pawn_attacks_moves(p, color).to_u64(), chess_lookup_generator::pawn_attacks(p)[ci].to_u64());
            // every occupancy of the relevant squares (two attack squares, two push squares),
            // with the rest of the board empty and with the rest of the board full
            let relevant = att | q1 | q2;
            let k = relevant.count_ones();
            for sub in 0..(1u64 << k) {
                // (the pawn's own square occupied, as in play, and left out of the occupancy)
                for (rest, own) in [(0u64, 1u64 << s), (!relevant & !(1u64 << s), 1u64 << s), (0u64, 0u64)] {
                    let occ = subset(relevant, sub) | rest | own;
                    let all = BitBoard::from_u64(occ);
                    let want_att = att & occ;
                    let mut want_q = 0;
                    if q1 != 0 && occ & q1 == 0 {
                        want_q |= q1;
                        if q2 != 0 && occ & q2 == 0 {
                            want_q |= q2;
                        }
                    }
                    expect("pawn_attacks", format!("{nm} {color:?} occ {occ:#x}"), chess_lookup::pawn_attacks(p, color, all).to_u64(), want_att);
                    expect("pawn_quiets", format!("{nm} {color:?} occ {occ:#x}"), chess_lookup::pawn_quiets(p, color, all).to_u64(), want_q);
                    expect("pawn_moves", format!("{nm} {color:?} occ {occ:#x}"), chess_lookup::pawn_moves(p, color, all).to_u64(), want_att | want_q);
                }
            }
        }
    }
    // pairs
    let gen_between = chess_lookup_generator::between();
    let gen_line = chess_lookup_generator::line();
    for a in 0..64u8 {
        for b in 0..64u8 {
            let (af, ar, bf, br) = ((a % 8) as i8, (a / 8) as i8, (b % 8) as i8, (b / 8) as i8);
            let what = format!("{}-{}", refchess::sq_name(a), refchess::sq_name(b));
            let (mut btw, mut ln) = (0u64, 0u64);
            if let Some((df, dr)) = aligned_step(a, b) {
                let (mut f, mut r) = (af + df, ar + dr);
                while (f, r) != (bf, br) {
                    btw |= bit(f, r);
                    f += df;
                    r += dr;
                }
                // whole line through both, edge to edge, endpoints included
                for dir in [(df, dr), (-df, -dr)] {
                    let (mut f, mut r) = (af, ar);
                    while on(f, r) {
                        ln |= bit(f, r);
                        f += dir.0;
                        r += dir.1;
                    }
                }
            }
            expect("between", what.clone(), chess_lookup::between(pos(a), pos(b)).to_u64(), btw);
            expect("line", what.clone(), chess_lookup::line(pos(a), pos(b)).to_u64(), ln);
            expect("generator-between", what.clone(), gen_between[a as usize * 64 + b as usize].to_u64(), chess_lookup::between(pos(a), pos(b)).to_u64());
            expect("generator-line", what.clone(), gen_line[a as usize * 64 + b as usize].to_u64(), chess_lookup::line(pos(a), pos(b)).to_u64());
            let dist = (af - bf).abs().max((ar - br).abs()) as u64;
            expect("distance", what, chess_lookup::distance(pos(a), pos(b)) as u64, dist);
        }
    }
    // adjacent files / ranks
    for i in 0..8i8 {
        let files = bb((0..8).flat_map(|r| [(i - 1, r), (i + 1, r)]));
        let ranks = bb((0..8).flat_map(|f| [(f, i - 1), (f, i + 1)]));
        expect("ADJACENT_FILES", format!("{i}"), chess_lookup::ADJACENT_FILES[File::from_u8(i as u8).unwrap()].to_u64(), files);
        expect("ADJACENT_RANKS", format!("{i}"), chess_lookup::ADJACENT_RANKS[Rank::from_u8(i as u8).unwrap()].to_u64(), ranks);
    }
    // constants
    let rank_bb = |r: i8| bb((0..8).map(|f| (f, r)));
    let file_bb = |f: i8| bb((0..8).map(|r| (f, r)));
    expect("CASTLE_MOVES", "".into(), chess_lookup::CASTLE_MOVES.to_u64(), bb([(2, 0), (4, 0), (6, 0), (2, 7), (4, 7), (6, 7)]));
    expect("PAWN_DOUBLE_SOURCE", "".into(), chess_lookup::PAWN_DOUBLE_SOURCE.to_u64(), rank_bb(1) | rank_bb(6));
    expect("PAWN_DOUBLE_DEST", "".into(), chess_lookup::PAWN_DOUBLE_DEST.to_u64(), rank_bb(3) | rank_bb(4));
    expect("PAWN_DOUBLE_MOVE", "white".into(), chess_lookup::PAWN_DOUBLE_MOVE[Color::White].to_u64(), rank_bb(1) | rank_bb(3));
    expect("PAWN_DOUBLE_MOVE", "black".into(), chess_lookup::PAWN_DOUBLE_MOVE[Color::Black].to_u64(), rank_bb(6) | rank_bb(4));
    expect("BACKRANK_BB", "white".into(), chess_lookup::BACKRANK_BB[Color::White].to_u64(), rank_bb(0));
    expect("BACKRANK_BB", "black".into(), chess_lookup::BACKRANK_BB[Color::Black].to_u64(), rank_bb(7));
    expect("BACKRANK", "white".into(), chess_lookup::BACKRANK[Color::White] as u64, 0);
    expect("BACKRANK", "black".into(), chess_lookup::BACKRANK[Color::Black] as u64, 7);
    expect("PROMOTION_RANK", "white".into(), chess_lookup::PROMOTION_RANK[Color::White] as u64, 7);
    expect("PROMOTION_RANK", "black".into(), chess_lookup::PROMOTION_RANK[Color::Black] as u64, 0);
    expect("PAWN_DOUBLE_MOVE_SOURCE_RANK", "white".into(), chess_lookup::PAWN_DOUBLE_MOVE_SOURCE_RANK[Color::White] as u64, 1);
    expect("PAWN_DOUBLE_MOVE_SOURCE_RANK", "black".into(), chess_lookup::PAWN_DOUBLE_MOVE_SOURCE_RANK[Color::Black] as u64, 6);
    expect("PAWN_DOUBLE_MOVE_DEST_RANK", "white".into(), chess_lookup::PAWN_DOUBLE_MOVE_DEST_RANK[Color::White] as u64, 3);
    expect("PAWN_DOUBLE_MOVE_DEST_RANK", "black".into(), chess_lookup::PAWN_DOUBLE_MOVE_DEST_RANK[Color::Black] as u64, 4);
    expect("ROOK_CASTLE_QUEENSIDE", "".into(), chess_lookup::ROOK_CASTLE_QUEENSIDE.to_u64(), file_bb(0) | file_bb(3));
    expect("ROOK_CASTLE_KINGSIDE", "".into(), chess_lookup::ROOK_CASTLE_KINGSIDE.to_u64(), file_bb(7) | file_bb(5));
    expect("KINGSIDE_CASTLE_FILES", "".into(), chess_lookup::KINGSIDE_CASTLE_FILES.to_u64(), file_bb(5) | file_bb(6));
    expect("QUEENSIDE_CASTLE_FILES", "".into(), chess_lookup::QUEENSIDE_CASTLE_FILES.to_u64(), file_bb(1) | file_bb(2) | file_bb(3));
    expect("KINGSIDE_CASTLE_SAFE_FILES", "".into(), chess_lookup::KINGSIDE_CASTLE_SAFE_FILES.to_u64(), file_bb(5) | file_bb(6));
    expect("QUEENSIDE_CASTLE_SAFE_FILES", "".into(), chess_lookup::QUEENSIDE_CASTLE_SAFE_FILES.to_u64(), file_bb(2) | file_bb(3));
    for f in 0..8usize {
        // king destination file -> rook start / end file: queen side for a-d, king side for e-h
        let (start, end) = if f < 4 { (0u64, 3u64) } else { (7, 5) };
        expect("CASTLE_ROOK_START", format!("{f}"), chess_lookup::CASTLE_ROOK_START[f] as u64, start);
        expect("CASTLE_ROOK_END", format!("{f}"), chess_lookup::CASTLE_ROOK_END[f] as u64, end);
    }
    // Pos::A1 etc. name what they say (used by castling code)
    expect("Pos::E1", "".into(), Pos::E1 as u64, 4);
    expect("Pos::H8", "".into(), Pos::H8 as u64, 63);
    (n, nontrivial, d)
}

pub fn run_c09(args: &Args) -> i32 {
    let report = Report::new("C09", args.tier, args.seed, "exploration");
    let (n, nontrivial, d) = c09_all();
    for x in &d {
        report.record(std::slice::from_ref(x), || json!({"kind": "tables"}));
    }
    let s = (args.seed % 64) as u8;
    report.finish(
        json!({
            "evaluations": n,
            "distinct_nontrivial": nontrivial,
            "rule": "every square x {knight, king, rook rays, bishop rays}; every ordered pair x {between, line, distance}; pawn pushes/attacks for every square x colour x every occupancy of the <=4 relevant squares (rest of the board empty and full); adjacent files/ranks; every exported constant; table vs generator functions. Non-trivial = the defined value is non-empty / non-zero.",
            "exhaustive": true,
            "samples": [
                {"lookup": "knight_moves", "square": refchess::sq_name(s), "value": format!("{:#018x}", chess_lookup::knight_moves(pos(s)).to_u64())},
                {"lookup": "between", "a": "a1", "b": "h8", "value": format!("{:#018x}", chess_lookup::between(Pos::A1, Pos::H8).to_u64())},
                {"lookup": "line", "a": "b1", "b": "c3", "value": format!("{:#018x}", chess_lookup::line(Pos::B1, Pos::C3).to_u64())},
            ],
        }),
        &["definitions written in (file, rank) arithmetic", "the generator's randomised magic search is not re-run (C08 checks its checked-in result)"],
    )
}

pub fn replay_c08(case: &serde_json::Value) -> Vec<Divergence> {
    let rook = case["rook"].as_bool().unwrap();
    let s = case["square"].as_u64().unwrap() as u8;
    let occ = u64::from_str_radix(case["occupancy"].as_str().unwrap().trim_start_matches("0x"), 16).unwrap();
    silence_panics();
    c08_case(rook, s, occ)
}
