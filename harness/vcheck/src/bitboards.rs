//! C18: bitboards behave as sets of squares.  Model = `[bool; 64]` indexed by (file, rank).
//! Families enumerated completely: empty, full, 64 singletons, 2016 pairs, their complements,
//! files, ranks, and all 2^16 subsets of a 16-square window holding every edge type.

use crate::common::*;
use crate::Args;
use chess_bitboard::{BitBoard, File, Pos, Rank};
use rayon::prelude::*;
use serde_json::json;

type Set = [bool; 64];

fn to_set(b: BitBoard) -> Set {
    let mut s = [false; 64];
    let v = b.to_u64();
    for i in 0..64 {
        s[i] = (v >> i) & 1 == 1;
    }
    s
}
fn from_set(s: &Set) -> u64 {
    let mut v = 0u64;
    for i in 0..64 {
        if s[i] {
            v |= 1 << i;
        }
    }
    v
}
fn model_shift(s: &Set, df: i8, dr: i8) -> Set {
    let mut o = [false; 64];
    for i in 0..64i8 {
        if s[i as usize] {
            let (f, r) = (i % 8 + df, i / 8 + dr);
            if (0..8).contains(&f) && (0..8).contains(&r) {
                o[(r * 8 + f) as usize] = true;
            }
        }
    }
    o
}
fn model_flip(s: &Set) -> Set {
    let mut o = [false; 64];
    for i in 0..64usize {
        if s[i] {
            o[(7 - i / 8) * 8 + i % 8] = true;
        }
    }
    o
}
fn members(s: &Set) -> Vec<u8> {
    (0..64u8).filter(|&i| s[i as usize]).collect()
}

const WINDOW: [u8; 16] = [0, 1, 7, 8, 9, 15, 56, 57, 63, 54, 27, 28, 35, 36, 18, 45];

fn small_family() -> Vec<u64> {
    let mut v = vec![0u64, !0u64];
    for i in 0..64 {
        v.push(1 << i);
    }
    for i in 0..64 {
        for j in (i + 1)..64 {
            v.push((1u64 << i) | (1u64 << j));
        }
    }
    for f in 0..8 {
        v.push(0x0101010101010101u64 << f);
    }
    for r in 0..8 {
        v.push(0xffu64 << (8 * r));
    }
    let n = v.len();
    for i in 0..n {
        v.push(!v[i]);
    }
    v.sort();
    v.dedup();
    v
}

fn window_family() -> Vec<u64> {
    (0..(1u64 << 16))
        .map(|k| {
            let mut v = 0u64;
            for (i, sq) in WINDOW.iter().enumerate() {
                if k & (1 << i) != 0 {
                    v |= 1u64 << sq;
                }
            }
            v
        })
        .collect()
}

fn unary(v: u64) -> Vec<Divergence> {
    set_case(|| json!({"property": "C18", "case": {"kind": "bitboard-unary", "board": format!("{v:#018x}")}}).to_string());
    let mut d = vec![];
    let b = BitBoard::from_u64(v);
    let s = to_set(b);
    let mem = members(&s);
    let mut bad = |class: &str, detail: String| d.push(Divergence::new(class, format!("{v:#018x}: {detail}")));
    if b.to_u64() != v || BitBoard::from(v) != b {
        bad("u64-round-trip", "from_u64/to_u64".into());
    }
    if b.count() as usize != mem.len() {
        bad("count-wrong", format!("count {} vs {}", b.count(), mem.len()));
    }
    if b.any() != !mem.is_empty() || b.none() != mem.is_empty() || b.all() != (mem.len() == 64) || b.some() != (mem.len() < 64) {
        bad("emptiness-predicates-wrong", "any/none/all/some".into());
    }
    let cmp = |name: &str, got: BitBoard, want: Set, d: &mut Vec<Divergence>| {
        if got.to_u64() != from_set(&want) {
            d.push(Divergence::new(format!("{name}-wrong"), format!("{v:#018x}: {name} = {:#018x}, set model {:#018x}", got.to_u64(), from_set(&want))));
        }
    };
    let mut neg = s;
    for x in neg.iter_mut() {
        *x = !*x;
    }
    cmp("complement", !b, neg, &mut d);
    cmp("complement", b.not(), neg, &mut d);
    cmp("shift_up", b.shift_up(), model_shift(&s, 0, 1), &mut d);
    cmp("shift_down", b.shift_down(), model_shift(&s, 0, -1), &mut d);
    cmp("shift_left", b.shift_left(), model_shift(&s, -1, 0), &mut d);
    cmp("shift_right", b.shift_right(), model_shift(&s, 1, 0), &mut d);
    cmp("flip_ranks", b.flip_ranks(), model_flip(&s), &mut d);
    // per-square operations
    for p in 0..64u8 {
        let pp = pos(p);
        if b.contains(pp) != s[p as usize] {
            d.push(Divergence::new("contains-wrong", format!("{v:#018x}: contains({})", refchess::sq_name(p))));
        }
        let mut w = s;
        w[p as usize] = true;
        let mut c = s;
        c[p as usize] = false;
        cmp("with", b.with(pp), w, &mut d);
        cmp("cleared", b.cleared(pp), c, &mut d);
        cmp("sub-pos", b - pp, c, &mut d);
        let mut m = b;
        m.set(pp);
        cmp("set", m, w, &mut d);
        let mut m = b;
        m.clear(pp);
        cmp("clear", m, c, &mut d);
        let mut m = b;
        m -= pp;
        cmp("sub-assign-pos", m, c, &mut d);
    }
    // pop until empty: ascending order, each removes exactly the yielded square
    let mut m = b;
    let mut popped = vec![];
    while let Some(p) = m.pop() {
        popped.push(p as u8);
        if popped.len() > 64 {
            break;
        }
    }
    if popped != mem || m.to_u64() != 0 {
        d.push(Divergence::new("pop-wrong", format!("{v:#018x}: pop sequence {popped:?}")));
    }
    if !mem.is_empty() {
        let mut m = b;
        let p = unsafe { m.pop_unchecked() };
        if p as u8 != mem[0] || m.to_u64() != v & !(1u64 << mem[0]) {
            d.push(Divergence::new("pop_unchecked-wrong", format!("{v:#018x}")));
        }
    }
    // iteration and collection
    let it: Vec<u8> = b.iter().map(|p| p as u8).collect();
    let it2: Vec<u8> = b.into_iter().map(|p| p as u8).collect();
    if it != mem || it2 != mem {
        d.push(Divergence::new("iteration-order-or-content-wrong", format!("{v:#018x}: {it:?}")));
    }
    let back: BitBoard = mem.iter().map(|&p| pos(p)).collect();
    let back_rev: BitBoard = mem.iter().rev().map(|&p| pos(p)).collect();
    if back != b || back_rev != b {
        d.push(Divergence::new("collect-from-squares-wrong", format!("{v:#018x}")));
    }
    // collection is set union whatever the length of the sequence: every member three times over,
    // preceded by 70 copies of its first member (more than 64 items in total)
    if !mem.is_empty() {
        let long: Vec<u8> = std::iter::repeat(mem[0]).take(70).chain(mem.iter().copied()).chain(mem.iter().rev().copied()).chain(mem.iter().copied()).collect();
        let got: BitBoard = long.iter().map(|&p| pos(p)).collect();
        if got != b {
            d.push(Divergence::new("collect-from-long-sequence-wrong", format!("{v:#018x}: collecting {} squares (with repeats) gives {:#018x}", long.len(), got.to_u64())));
        }
        let got2: BitBoard = long.iter().map(|&p| BitBoard::from_pos(pos(p))).collect();
        if got2 != b {
            d.push(Divergence::new("collect-from-long-sequence-wrong", format!("{v:#018x}: collecting {} single-square boards gives {:#018x}", long.len(), got2.to_u64())));
        }
    }
    let singles: BitBoard = mem.iter().map(|&p| BitBoard::from_pos(pos(p))).collect();
    if singles != b {
        d.push(Divergence::new("collect-from-boards-wrong", format!("{v:#018x}")));
    }
    // whole boards as elements: the board alone, padded with empty boards, with its complement
    let alone: BitBoard = std::iter::once(b).collect();
    let padded: BitBoard = [BitBoard::empty(), b, BitBoard::empty(), b].into_iter().collect();
    let with_complement: BitBoard = [b, BitBoard::from_u64(!v)].into_iter().collect();
    let halves: BitBoard = [BitBoard::from_u64(v & 0x0f0f_0f0f_0f0f_0f0f), BitBoard::from_u64(v & 0xf0f0_f0f0_f0f0_f0f0)].into_iter().collect();
    if alone != b || padded != b || with_complement.to_u64() != u64::MAX || halves != b {
        d.push(Divergence::new("collect-from-boards-wrong", format!("{v:#018x}: whole boards as elements: alone {:#018x}, padded {:#018x}, with complement {:#018x}, halves {:#018x}", alone.to_u64(), padded.to_u64(), with_complement.to_u64(), halves.to_u64())));
    }
    d
}

/// iterator state machine from one board: every suffix state x {next, nth(n), size_hint}
fn iterator_machine(v: u64, ns: &[usize]) -> (u64, Vec<Divergence>) {
    set_case(|| json!({"property": "C18", "case": {"kind": "bitboard-iterator", "board": format!("{v:#018x}")}}).to_string());
    let mut d = vec![];
    let mem = members(&to_set(BitBoard::from_u64(v)));
    let mut evals = 0u64;
    for lo in 0..=mem.len() {
        // state: remaining = mem[lo..]
        let rem: u64 = mem[lo..].iter().fold(0u64, |a, &p| a | (1u64 << p));
        let it = BitBoard::from_u64(rem).iter();
        let len = mem.len() - lo;
        evals += 1;
        if it.size_hint() != (len, Some(len)) {
            d.push(Divergence::new("iter-size_hint-wrong", format!("{rem:#018x}: {:?}", it.size_hint())));
        }
        let mut j = it.clone();
        let got = j.next().map(|p| p as u8);
        if got != mem.get(lo).copied() || j.clone().map(|p| p as u8).collect::<Vec<u8>>() != mem[(lo + 1).min(mem.len())..] {
            d.push(Divergence::new("iter-next-wrong", format!("{rem:#018x}")));
        }
        let left = len.saturating_sub(1);
        if j.size_hint() != (left, Some(left)) || j.clone().count() != left {
            d.push(Divergence::new("iter-size_hint-wrong-after-next", format!("{rem:#018x}: after next() size_hint() = {:?}, {left} elements are left", j.size_hint())));
        }
        // a whole drain by stepping, the hint checked on the way (state carried, not rebuilt)
        if lo == 0 {
            let mut k = it.clone();
            let mut remaining = len;
            while k.next().is_some() {
                remaining -= 1;
                if k.size_hint() != (remaining, Some(remaining)) {
                    d.push(Divergence::new("iter-size_hint-wrong-while-draining", format!("{rem:#018x}: {} left, size_hint() = {:?}", remaining, k.size_hint())));
                    break;
                }
            }
            if k.next().is_some() || k.size_hint() != (0, Some(0)) {
                d.push(Divergence::new("iter-not-fused-or-hint-wrong-at-the-end", format!("{rem:#018x}")));
            }
        }
        for &n in ns {
            evals += 1;
            let mut j = it.clone();
            let got = std::panic::catch_unwind(move || {
                let g = j.nth(n).map(|p| p as u8);
                // what the iterator says about itself right after the skip, then what it still yields
                let hint = j.size_hint();
                let cnt = j.clone().count();
                (g, hint, cnt, j.map(|p| p as u8).collect::<Vec<u8>>())
            });
            let (want, after): (Option<u8>, &[u8]) = if n < len { (Some(mem[lo + n]), &mem[lo + n + 1..]) } else { (None, &[]) };
            match got {
                Ok((g, hint, cnt, rest)) => {
                    if g == want && rest == after && (hint != (after.len(), Some(after.len())) || cnt != after.len()) {
                        d.push(Divergence::new(
                            "iter-size_hint-wrong-after-nth",
                            format!("{rem:#018x}.iter().nth({n}): afterwards size_hint() = {hint:?} and count() = {cnt}, {} elements are left", after.len()),
                        ));
                    }
                    if g != want {
                        d.push(Divergence::new(
                            if n < len { "iter-nth-wrong-element" } else { "iter-nth-past-end-returns-element" },
                            format!("{rem:#018x}.iter().nth({n}) = {g:?}, skipping {n} elements gives {want:?}"),
                        ));
                    } else if rest != after {
                        d.push(Divergence::new(
                            if n < len { "iter-nth-wrong-state-after" } else { "iter-nth-past-end-does-not-consume" },
                            format!("{rem:#018x}.iter().nth({n}) leaves {} elements, skipping leaves {}", rest.len(), after.len()),
                        ));
                    }
                }
                Err(_) => d.push(Divergence::new("iter-nth-panics", format!("{rem:#018x}.iter().nth({n}) panicked"))),
            }
        }
    }
    (evals, d)
}

/// skip counts around every power of two (truncating casts, shifts that wrap) and the extremes
fn big_ns() -> Vec<usize> {
    let mut v = vec![127usize, 128, 255, 256, 257, usize::MAX, usize::MAX - 1, usize::MAX - 63, usize::MAX - 64];
    for sh in [8u32, 16, 31, 32, 33, 48, 63] {
        let base = 1usize << sh;
        for off in [0usize, 1, 2, 7, 63] {
            v.push(base.wrapping_add(off));
            v.push(base.wrapping_sub(off + 1));
        }
    }
    v.sort();
    v.dedup();
    v
}

fn binary(a: u64, b: u64) -> Option<Divergence> {
    let (x, y) = (BitBoard::from_u64(a), BitBoard::from_u64(b));
    let (sa, sb) = (to_set(x), to_set(y));
    let mut or = [false; 64];
    let mut and = [false; 64];
    let mut xor = [false; 64];
    let mut diff = [false; 64];
    for i in 0..64 {
        or[i] = sa[i] || sb[i];
        and[i] = sa[i] && sb[i];
        xor[i] = sa[i] != sb[i];
        diff[i] = sa[i] && !sb[i];
    }
    let chk = |name: &str, got: BitBoard, want: &Set| -> Option<Divergence> {
        if got.to_u64() != from_set(want) {
            Some(Divergence::new(format!("{name}-wrong"), format!("{a:#018x} {name} {b:#018x} = {:#018x}", got.to_u64())))
        } else {
            None
        }
    };
    let mut m1 = x;
    m1 |= y;
    let mut m2 = x;
    m2 &= y;
    let mut m3 = x;
    m3 ^= y;
    let mut m4 = x;
    m4 -= y;
    chk("union", x | y, &or)
        .or_else(|| chk("union", x.or(y), &or))
        .or_else(|| chk("union-assign", m1, &or))
        .or_else(|| chk("intersection", x & y, &and))
        .or_else(|| chk("intersection", x.and(y), &and))
        .or_else(|| chk("intersection-assign", m2, &and))
        .or_else(|| chk("symmetric-difference", x ^ y, &xor))
        .or_else(|| chk("symmetric-difference", x.xor(y), &xor))
        .or_else(|| chk("symmetric-difference-assign", m3, &xor))
        .or_else(|| chk("difference", x - y, &diff))
        .or_else(|| chk("difference", x.diff(y), &diff))
        .or_else(|| chk("difference-assign", m4, &diff))
}

pub fn run_c18(args: &Args) -> i32 {
    let report = Report::new("C18", args.tier, args.seed, "exploration");
    silence_panics();
    let small = small_family();
    let window = window_family();
    let mut all: Vec<u64> = small.clone();
    all.extend(&window);
    // rank-symmetric boards plus one odd square: ranks 1-3 mirrored exactly on ranks 8-6 (every
    // singleton and pair of the lower 24 squares) and one square on rank 4 or 5 - a shortcut that
    // recognises 'boards that mirror onto themselves' must look at the middle ranks too
    {
        let mut lows: Vec<u64> = vec![];
        for i in 0..24u32 {
            lows.push(1u64 << i);
            for j in (i + 1)..24 {
                if (i + j) % 3 == 0 {
                    lows.push((1u64 << i) | (1u64 << j));
                }
            }
        }
        for p in lows {
            let sym = p | p.swap_bytes();
            all.push(sym);
            for mid in [24u32, 27, 31, 32, 36, 39] {
                all.push(sym | (1u64 << mid));
            }
            all.push(sym | 0x0000_00ff_0000_0000);
            all.push(sym | 0x0000_0081_4200_0000);
        }
    }
    // irregular boards of every density (the structured families above have <= 16 or >= 48 squares or
    // a regular pattern): a fixed xorshift sequence mixed with VERIF_SEED, each value also thinned
    // (and of two) and thickened (or of two)
    {
        let mut state: u64 = 0x9E37_79B9_7F4A_7C15 ^ args.seed.wrapping_mul(0xD6E8_FEB8_6659_FD93);
        if state == 0 {
            state = 1;
        }
        let mut next = || {
            state ^= state << 13;
            state ^= state >> 7;
            state ^= state << 17;
            state
        };
        for _ in 0..1024 {
            let (a, b, c) = (next(), next(), next());
            all.extend([a, a & b, a | b, a & b & c, a | b | c]);
        }
    }
    all.sort();
    all.dedup();
    let mut evals = 0u64;
    // constructors
    let mut d = vec![];
    for p in 0..64u8 {
        if BitBoard::from_pos(pos(p)).to_u64() != 1u64 << p || BitBoard::from(pos(p)).to_u64() != 1u64 << p {
            d.push(Divergence::new("from_pos-wrong", refchess::sq_name(p)));
        }
    }
    for i in 0..8u8 {
        let f: u64 = (0..8).fold(0, |a, r| a | 1u64 << (r * 8 + i));
        let r: u64 = (0..8).fold(0, |a, f| a | 1u64 << (i * 8 + f));
        if BitBoard::from_file(File::from_u8(i).unwrap()).to_u64() != f || BitBoard::from(File::from_u8(i).unwrap()).to_u64() != f {
            d.push(Divergence::new("from_file-wrong", format!("{i}")));
        }
        if BitBoard::from_rank(Rank::from_u8(i).unwrap()).to_u64() != r || BitBoard::from(Rank::from_u8(i).unwrap()).to_u64() != r {
            d.push(Divergence::new("from_rank-wrong", format!("{i}")));
        }
    }
    if BitBoard::empty().to_u64() != 0 || BitBoard::from(None::<Pos>).to_u64() != 0 || BitBoard::from(Some(Pos::E4)).to_u64() != 1 << 28 {
        d.push(Divergence::new("empty-or-option-conversion-wrong", ""));
    }
    evals += 64 + 16 + 3;
    report.record(&d, || json!({"kind": "bitboard-constructors"}));

    // unary operations on every member
    let res: Vec<Vec<Divergence>> = all.par_iter().map(|&v| unary(v)).collect();
    evals += all.len() as u64 * (12 + 64 * 7);
    for (v, dd) in all.iter().zip(&res) {
        report.record(dd, || json!({"kind": "bitboard-unary", "board": format!("{v:#018x}")}));
    }
    // iterator state machines
    let mut ns: Vec<usize> = (0..=66).collect();
    ns.extend(big_ns());
    let res: Vec<(u64, Vec<Divergence>)> = all.par_iter().map(|&v| iterator_machine(v, &ns)).collect();
    for (v, (e, dd)) in all.iter().zip(&res) {
        evals += e;
        report.record(dd, || json!({"kind": "bitboard-iterator", "board": format!("{v:#018x}")}));
    }
    // binary operations on small x small (thorough: plus window x a window stride)
    let lhs: Vec<u64> = small.clone();
    let rhs: Vec<u64> = if args.tier == Tier::Thorough { all.clone() } else { small.clone() };
    let bad: Vec<(u64, u64, Divergence)> = lhs
        .par_iter()
        .flat_map_iter(|&a| {
            let mut out = vec![];
            for &b in &rhs {
                if let Some(dv) = binary(a, b) {
                    out.push((a, b, dv));
                    if out.len() > 3 {
                        break;
                    }
                }
            }
            out
        })
        .collect();
    evals += lhs.len() as u64 * rhs.len() as u64 * 12;
    for (a, b, dv) in bad.iter().take(200) {
        report.record(std::slice::from_ref(dv), || json!({"kind": "bitboard-binary", "a": format!("{a:#018x}"), "b": format!("{b:#018x}")}));
    }
    restore_panics();
    // thorough: the same check in a build without BMI2 (the portable `nth` path)
    let mut other_flavour = json!(null);
    let nobmi2 = "/verif/target/nobmi2/release/vcheck";
    if args.tier == Tier::Thorough && std::env::var("VCHECK_SUBRUN").is_err() {
        if !std::path::Path::new(nobmi2).exists() {
            machinery_failure("the non-BMI2 build is missing (./check C18 --tier thorough builds it)");
        }
        let out = std::process::Command::new(nobmi2).args(["C18", "--tier", "quick"]).env("VCHECK_SUBRUN", "1").output().unwrap_or_else(|e| machinery_failure(&format!("{nobmi2}: {e}")));
        let text = String::from_utf8_lossy(&out.stdout);
        let mut cov = None;
        for line in text.lines() {
            if let Some(rest) = line.strip_prefix("SUBRUN-DIVERGENCE\t") {
                let f: Vec<&str> = rest.splitn(3, '\t').collect();
                report.record(&[Divergence::new(format!("no-bmi2-build:{}", f[0]), f.get(2).unwrap_or(&"").to_string())], || json!({"kind": "other-flavour", "binary": nobmi2}));
            }
            if let Some(rest) = line.strip_prefix("SUBRUN-COVERAGE ") {
                cov = serde_json::from_str::<serde_json::Value>(rest).ok();
            }
        }
        match cov {
            Some(c) => {
                if c["bmi2_path"].as_bool() != Some(false) {
                    machinery_failure("the non-BMI2 build still has BMI2 enabled");
                }
                other_flavour = c;
            }
            None => machinery_failure("the non-BMI2 sub-run gave no coverage line"),
        }
    }
    let sample = all[(args.seed as usize * 7919 + 4242) % all.len()];
    report.finish(
        json!({
            "evaluations": evals,
            "distinct_nontrivial": all.len() as u64 - 1,
            "rule": "family = {empty, full, 64 singletons, 2016 pairs, 8 files, 8 ranks, complements of all of these} plus all 2^16 subsets of the 16-square window a1 b1 h1 a2 b2 h2 a8 b8 h8 g7 d4 e4 d5 e5 c3 f6 (every edge type) plus ~1100 rank-symmetric boards with an odd square on rank 4 or 5 plus 5120 irregular boards of every density (a fixed xorshift sequence mixed with VERIF_SEED; each value, and-thinned and or-thickened). Every unary operation and every per-square operation (x 64 squares) on every member; the iterator explored from every suffix state of every member with next, size_hint and nth(n) for n in 0..=66 and ~70 values around every power of two up to 2^63 and usize::MAX (result and the state left behind compared with skipping n elements); all binary operators and their assign forms on small x small (thorough: small x everything). Non-trivial = distinct non-empty boards.",
            "family_size": all.len(),
            "bmi2_path": cfg!(target_feature = "bmi2"),
            "same_check_in_build_without_bmi2": other_flavour,
            "exhaustive": true,
            "exhaustive_note": "complete over the stated family, not over all 2^64 boards",
            "samples": [{"board": format!("{sample:#018x}"), "squares": members(&to_set(BitBoard::from_u64(sample))).iter().map(|&p| refchess::sq_name(p)).collect::<Vec<_>>()}],
        }),
        &["[bool; 64] set model indexed by (file, rank)", "the build uses -Ctarget-cpu=native like the repository's own config, so the BMI2 nth path is the one exercised on this machine"],
    )
}

pub fn replay_c18(case: &serde_json::Value) -> Vec<Divergence> {
    silence_panics();
    let parse = |k: &str| u64::from_str_radix(case[k].as_str().unwrap_or("0x0").trim_start_matches("0x"), 16).unwrap();
    match case["kind"].as_str() {
        Some("bitboard-unary") => unary(parse("board")),
        Some("bitboard-iterator") => {
            let mut ns: Vec<usize> = (0..=66).collect();
            ns.extend(big_ns());
            iterator_machine(parse("board"), &ns).1
        }
        Some("bitboard-binary") => binary(parse("a"), parse("b")).into_iter().collect(),
        _ => vec![],
    }
}
