//! Per-state and per-transition oracles for C01-C05.  Every function takes the reference
//! position `rp` and the real `Board` that was reached *by playing moves* (or by parsing, for a
//! root), and returns the divergences it sees.  Nothing here decides what is enumerated.

use crate::common::*;
use chess_movegen::{Board, ChessMove, GameState};
use refchess::{Mv, Pc, Position, Status};
use std::collections::BTreeSet;
use std::hash::{Hash, Hasher};

#[derive(Clone, Copy, Default, Debug)]
pub struct Props {
    /// only the transitions of this state are of interest (family EpPlayed: the root is just the
    /// launch pad of the double push)
    pub skip_state_oracles: bool,
    /// family EpPlayed: only double pawn pushes are played from the root
    pub double_push_only: bool,
    /// C02: compare Debug renderings between move_new / move_mut / move_into on every transition
    pub deep: bool,
    pub c01: bool,
    pub c02: bool,
    pub c03: bool,
    pub c04: bool,
    pub c05: bool,
    /// C01(d): sweep all 64*64*5 triples through is_legal on this state
    pub full_sweep: bool,
    /// continue from the board REACHED BY PLAY even when it differs from the rebuilt twin, so that
    /// stale state (a castling right that should have gone) is carried along a whole history
    pub carry_played: bool,
}

#[derive(Default, Clone, Debug)]
pub struct StateStats {
    pub ep_available: bool,
    pub in_check: bool,
    pub double_check: bool,
    pub legality_filter_bites: bool,
    pub castling_available: bool,
    pub promotion_available: bool,
    pub terminal: bool,
    pub moves: usize,
    pub is_legal_calls: u64,
    pub illegal_offers: u64,
}

impl StateStats {
    pub fn nontrivial(&self) -> bool {
        self.ep_available || self.in_check || self.legality_filter_bites || self.castling_available || self.promotion_available
    }
}

pub fn classify(rp: &Position, legal: &[Mv]) -> StateStats {
    let mut st = StateStats { moves: legal.len(), ..Default::default() };
    st.in_check = rp.in_check();
    if st.in_check {
        let k = rp.king_sq(rp.turn).unwrap();
        st.double_check = rp.attackers(k, rp.turn.flip()).len() >= 2;
    }
    st.terminal = legal.is_empty();
    let eps = rp.ep_square();
    for m in legal {
        let pc = rp.at(m.from).map(|x| x.1);
        if m.promo.is_some() {
            st.promotion_available = true;
        }
        if pc == Some(Pc::P) && Some(m.to) == eps {
            st.ep_available = true;
        }
        if pc == Some(Pc::K) && (refchess::file_of(m.from) - refchess::file_of(m.to)).abs() == 2 {
            st.castling_available = true;
        }
    }
    st
}

fn mv_class(rp: &Position, m: Mv) -> &'static str {
    let pc = rp.at(m.from).map(|x| x.1);
    if pc == Some(Pc::P) && Some(m.to) == rp.ep_square() {
        "en-passant"
    } else if pc == Some(Pc::K) && (refchess::file_of(m.from) - refchess::file_of(m.to)).abs() == 2 {
        "castling"
    } else if m.promo.is_some() {
        "promotion"
    } else if pc == Some(Pc::K) {
        "king"
    } else if rp.in_check() {
        "check-evasion"
    } else {
        match pc {
            Some(Pc::P) => "pawn",
            Some(Pc::N) => "knight",
            Some(Pc::B) | Some(Pc::R) | Some(Pc::Q) => "slider",
            _ => "no-piece",
        }
    }
}

/// en passant, castling, promotion
pub fn is_rule_special(rp: &Position, m: Mv) -> bool {
    let cls = mv_class(rp, m);
    cls == "en-passant" || cls == "castling" || cls == "promotion"
}

/// moves that exercise a special rule: en passant, castling, promotion, a double pawn step
/// (sets the marker), or anything that can change castling rights
pub fn is_special(rp: &Position, m: Mv) -> bool {
    let cls = mv_class(rp, m);
    if cls == "en-passant" || cls == "castling" || cls == "promotion" {
        return true;
    }
    let pc = rp.at(m.from).map(|x| x.1);
    if pc == Some(Pc::P) && (refchess::rank_of(m.from) - refchess::rank_of(m.to)).abs() == 2 {
        return true;
    }
    if rp.rights.iter().any(|x| *x) && (pc == Some(Pc::K) || pc == Some(Pc::R) || [0u8, 7, 56, 63].contains(&m.to)) {
        return true;
    }
    false
}

/// triples that look like moves but are not legal: pseudo-legal-but-illegal, legal (from,to) with
/// a wrong promotion field, promotion pieces on non-promotions
pub fn near_misses(rp: &Position, legal: &[Mv]) -> Vec<Mv> {
    let set: BTreeSet<Mv> = legal.iter().copied().collect();
    let mut out = BTreeSet::new();
    for m in rp.pseudo_illegal() {
        out.insert(m);
    }
    for m in legal {
        match m.promo {
            Some(_) => {
                out.insert(Mv::new(m.from, m.to, None));
            }
            None => {
                for p in refchess::PROMOS {
                    out.insert(Mv::new(m.from, m.to, Some(p)));
                }
            }
        }
        // reversed move and a move from the destination: cheap structural near misses
        out.insert(Mv::new(m.to, m.from, None));
    }
    // an en-passant "capture" by every own pawn standing on the capture rank, whatever its file
    // (adjacent files that are not legal, files further away, across the board edge)
    if let Some(e) = rp.ep_square() {
        let rank = if rp.turn == refchess::Col::W { 4u8 } else { 3u8 };
        for f in 0..8u8 {
            let from = rank * 8 + f;
            if rp.at(from) == Some((rp.turn, refchess::Pc::P)) {
                out.insert(Mv::new(from, e, None));
            }
        }
    }
    // steps that are one index step away but wrap around the board edge
    for from in 0..64u8 {
        let Some((c, pc)) = rp.at(from) else { continue };
        if c != rp.turn {
            continue;
        }
        let deltas: &[i16] = match pc {
            refchess::Pc::P => if c == refchess::Col::W { &[7, 9] } else { &[-7, -9] },
            refchess::Pc::K => &[1, -1, 7, 9, -7, -9],
            refchess::Pc::N => &[6, 10, 15, 17, -6, -10, -15, -17],
            _ => &[],
        };
        for dlt in deltas {
            let to = from as i16 + dlt;
            if !(0..64).contains(&to) {
                continue;
            }
            let (ff, tf) = ((from % 8) as i16, (to % 8) as i16);
            let max_file_step = if pc == refchess::Pc::N { 2 } else { 1 };
            if (ff - tf).abs() > max_file_step {
                out.insert(Mv::new(from, to as u8, None));
            }
        }
    }
    out.into_iter().filter(|m| !set.contains(m)).collect()
}

pub fn impl_moves(b: &Board) -> Vec<Mv> {
    b.legals().map(ref_mv).collect()
}

// ------------------------------------------------------------------ C01

pub fn c01_state(rp: &Position, b: &Board, legal: &[Mv], props: &Props, st: &mut StateStats) -> Vec<Divergence> {
    let mut d = vec![];
    let got = impl_moves(b);
    let want: BTreeSet<Mv> = legal.iter().copied().collect();
    let mut seen = BTreeSet::new();
    for m in &got {
        if !seen.insert(*m) {
            d.push(Divergence::new(
                format!("duplicate-move:{}", mv_class(rp, *m)),
                format!("{}: {} generated twice", rp.to_fen(), m.uci()),
            ));
        }
    }
    for m in seen.difference(&want) {
        d.push(Divergence::new(
            format!("illegal-move-generated:{}", mv_class(rp, *m)),
            format!("{}: {} generated but not legal", rp.to_fen(), m.uci()),
        ));
    }
    for m in want.difference(&seen) {
        d.push(Divergence::new(
            format!("legal-move-missing:{}", mv_class(rp, *m)),
            format!("{}: {} legal but not generated", rp.to_fen(), m.uci()),
        ));
    }
    // single-move query agrees
    for m in legal {
        st.is_legal_calls += 1;
        if !b.is_legal(real_mv(*m)) {
            d.push(Divergence::new(
                format!("is_legal-false-on-legal:{}", mv_class(rp, *m)),
                format!("{}: is_legal({}) = false", rp.to_fen(), m.uci()),
            ));
        }
    }
    for m in near_misses(rp, legal) {
        st.is_legal_calls += 1;
        st.illegal_offers += 1;
        if b.is_legal(real_mv(m)) {
            d.push(Divergence::new(
                format!("is_legal-true-on-illegal:{}", mv_class(rp, m)),
                format!("{}: is_legal({}) = true", rp.to_fen(), m.uci()),
            ));
        }
    }
    if props.full_sweep {
        for from in 0..64u8 {
            for to in 0..64u8 {
                for promo in [None, Some(Pc::N), Some(Pc::B), Some(Pc::R), Some(Pc::Q)] {
                    let m = Mv::new(from, to, promo);
                    st.is_legal_calls += 1;
                    let w = want.contains(&m);
                    if b.is_legal(real_mv(m)) != w {
                        d.push(Divergence::new(
                            format!("is_legal-sweep-mismatch:{}", mv_class(rp, m)),
                            format!("{}: is_legal({}) = {} but legal = {}", rp.to_fen(), m.uci(), !w, w),
                        ));
                    }
                }
            }
        }
    }
    d
}

// ------------------------------------------------------------------ C02

fn bits_equal(a: &Board, b: &Board) -> bool {
    cheap_equal(a, b) && format!("{a:?}") == format!("{b:?}")
}

/// everything observable except the Debug text: equality, clocks, hash, check flag and the
/// generated move list in generation order (which depends on the cached pin/checker sets)
fn cheap_equal(a: &Board, b: &Board) -> bool {
    a == b
        && a.half_move_clock() == b.half_move_clock()
        && a.full_move_clock() == b.full_move_clock()
        && a.zobrist() == b.zobrist()
        && a.in_check() == b.in_check()
        && a.legals().eq(b.legals())
}

/// squares, side to move and clocks through the accessors only (no text involved)
fn accessors_match(b: &Board, want: &Position) -> bool {
    for s in 0..64u8 {
        let got = b.raw().get(pos(s)).map(|(c, pc)| (ref_color(c), ref_piece(pc)));
        if got != want.board[s as usize] {
            return false;
        }
    }
    ref_color(b.turn()) == want.turn && b.half_move_clock() as u32 == want.half && b.full_move_clock() as u32 == want.full
}

/// one transition: `m` is reference-legal in `rp`.  `deep` adds the Debug-text comparisons
/// (cached pin/checker sets, raw piece hash) between the three checked operations.
pub fn c02_transition(rp: &Position, b: &Board, m: Mv, child_ref: &Position, deep: bool) -> (Option<Board>, Vec<Divergence>) {
    let mut d = vec![];
    let rm = real_mv(m);
    let cls = mv_class(rp, m);
    let Some(child) = b.move_new(rm) else {
        d.push(Divergence::new(
            format!("move_new-refuses-legal:{cls}"),
            format!("{}: move_new({}) = None", rp.to_fen(), m.uci()),
        ));
        return (None, d);
    };
    // Eq against the from-scratch twin covers rights and marker without any text
    let twin = parse_board(&child_ref.to_fen());
    let eq_twin = match &twin {
        Ok(t) => child == *t,
        Err(_) => false,
    };
    if !accessors_match(&child, child_ref) || !eq_twin || deep {
        // slow path: read everything back (rights / marker from the Debug text) and name the field
        let got = read_back(&child);
        if let Some(diff) = diff_position(&got, child_ref) {
            let what = if got.board != child_ref.board {
                "placement"
            } else if got.rights != child_ref.rights {
                "rights"
            } else if got.ep != child_ref.ep {
                "ep-marker"
            } else if got.half != child_ref.half {
                "half-move-clock"
            } else if got.full != child_ref.full {
                "full-move-clock"
            } else {
                "side-to-move"
            };
            d.push(Divergence::new(
                format!("wrong-successor:{what}:{cls}"),
                format!("{} after {}: {diff}", rp.to_fen(), m.uci()),
            ));
        }
        if twin.is_ok() && !eq_twin {
            d.push(Divergence::new(
                format!("successor-not-eq-rebuilt:{cls}"),
                format!("{} after {}: board != parse({})", rp.to_fen(), m.uci(), child_ref.to_fen()),
            ));
        }
    }
    // the three checked operations agree
    let same = |a: &Board, b: &Board| if deep { bits_equal(a, b) } else { cheap_equal(a, b) };
    let mut mm = *b;
    let ok = mm.move_mut(rm);
    if !ok || !same(&mm, &child) {
        d.push(Divergence::new(
            format!("move_mut-disagrees:{cls}"),
            format!("{}: move_mut({}) ok={ok}", rp.to_fen(), m.uci()),
        ));
    }
    let mut out = Board::standard();
    let ok = b.move_into(rm, &mut out);
    if !ok || !same(&out, &child) {
        d.push(Divergence::new(
            format!("move_into-disagrees:{cls}"),
            format!("{}: move_into({}) ok={ok}", rp.to_fen(), m.uci()),
        ));
    }
    (Some(child), d)
}

/// illegal triples offered to the three checked operations: refused, and nothing touched
pub fn c02_refusals(rp: &Position, b: &Board, legal: &[Mv], sweep: bool, st: &mut StateStats) -> Vec<Divergence> {
    let mut d = vec![];
    let mut offers = near_misses(rp, legal);
    let n_near = offers.len();
    if sweep {
        let want: BTreeSet<Mv> = legal.iter().copied().collect();
        for from in 0..64u8 {
            for to in 0..64u8 {
                for promo in [None, Some(Pc::N), Some(Pc::B), Some(Pc::R), Some(Pc::Q)] {
                    let m = Mv::new(from, to, promo);
                    if !want.contains(&m) {
                        offers.push(m);
                    }
                }
            }
        }
    }
    let sentinel = Board::standard();
    for (i, m) in offers.into_iter().enumerate() {
        let same = |a: &Board, b: &Board| if i < n_near.min(2) { bits_equal(a, b) } else { cheap_equal(a, b) };
        st.illegal_offers += 1;
        let rm: ChessMove = real_mv(m);
        let cls = mv_class(rp, m);
        if b.move_new(rm).is_some() {
            d.push(Divergence::new(
                format!("move_new-accepts-illegal:{cls}"),
                format!("{}: move_new({}) accepted", rp.to_fen(), m.uci()),
            ));
            continue;
        }
        let mut mm = *b;
        if mm.move_mut(rm) || !same(&mm, b) {
            d.push(Divergence::new(
                format!("move_mut-illegal-not-inert:{cls}"),
                format!("{}: move_mut({}) accepted or changed the board", rp.to_fen(), m.uci()),
            ));
        }
        let mut out = sentinel;
        if b.move_into(rm, &mut out) || !same(&out, &sentinel) {
            d.push(Divergence::new(
                format!("move_into-illegal-not-inert:{cls}"),
                format!("{}: move_into({}) accepted or wrote the output", rp.to_fen(), m.uci()),
            ));
        }
    }
    d
}

// ------------------------------------------------------------------ C03

pub fn ref_state(rp: &Position) -> GameState {
    match rp.status() {
        Status::Checkmate => GameState::CheckMate,
        Status::Draw => GameState::StaleMate,
        Status::Check => GameState::Check,
        Status::Running => GameState::Running,
    }
}

/// `played` is true when `b` was reached by playing at least one move
pub fn c03_state(rp: &Position, b: &Board, played: bool) -> Vec<Divergence> {
    let mut d = vec![];
    let fen = rp.to_fen();
    let how = if played { "played" } else { "root" };
    if b.in_check() != rp.in_check() {
        d.push(Divergence::new(
            format!("in_check-wrong:{how}"),
            format!("{fen}: in_check() = {} but king attacked = {}", b.in_check(), rp.in_check()),
        ));
    }
    let want = ref_state(rp);
    let got = b.state();
    if got != want {
        d.push(Divergence::new(
            format!("state-wrong:{how}:{want:?}-reported-{got:?}"),
            format!("{fen}: state() = {got:?}, rules say {want:?}"),
        ));
    }
    if played {
        match parse_board(&fen) {
            Ok(twin) => {
                if twin.in_check() != b.in_check() {
                    d.push(Divergence::new("stale:in_check", format!("{fen}: played board and rebuilt board differ on in_check")));
                }
                if twin.state() != b.state() {
                    d.push(Divergence::new("stale:state", format!("{fen}: played board and rebuilt board differ on state()")));
                }
                let a: BTreeSet<Mv> = impl_moves(b).into_iter().collect();
                let t: BTreeSet<Mv> = impl_moves(&twin).into_iter().collect();
                if a != t {
                    d.push(Divergence::new("stale:legal-moves", format!("{fen}: played board and rebuilt board generate different moves")));
                }
                if twin.zobrist() != b.zobrist() {
                    d.push(Divergence::new("stale:hash", format!("{fen}: played hash {} != rebuilt hash {}", b.zobrist(), twin.zobrist())));
                }
                if twin.to_string() != b.to_string() {
                    d.push(Divergence::new("stale:text", format!("{fen}: '{}' vs rebuilt '{}'", b, twin)));
                }
                if format!("{twin:?}") != format!("{b:?}") {
                    d.push(Divergence::new(
                        "stale:debug-rendering",
                        format!("{fen}: Debug of played board differs from rebuilt board (pinned/checker marks or raw hash)"),
                    ));
                }
                if twin != *b {
                    d.push(Divergence::new("stale:eq", format!("{fen}: played board != rebuilt board")));
                }
            }
            Err(e) => d.push(Divergence::new("rebuild-rejected", format!("{fen}: canonical FEN of a reached position rejected: {e}"))),
        }
    }
    d
}

// ------------------------------------------------------------------ C04

struct Recorder(Vec<u8>);
impl Hasher for Recorder {
    fn finish(&self) -> u64 {
        0
    }
    fn write(&mut self, bytes: &[u8]) {
        self.0.extend_from_slice(bytes);
    }
}

pub fn hash_trait_bytes(b: &Board) -> Vec<u8> {
    let mut r = Recorder(vec![]);
    b.hash(&mut r);
    r.0
}

pub fn c04_state(rp: &Position, b: &Board, played: bool) -> Vec<Divergence> {
    let mut d = vec![];
    let fen = rp.to_fen();
    if let Ok(twin) = parse_board(&fen) {
        if twin == *b {
            if twin.zobrist() != b.zobrist() {
                d.push(Divergence::new(
                    if played { "incremental-hash-differs-from-scratch" } else { "hash-differs-for-equal-boards" },
                    format!("{fen}: hash {} vs from-scratch {}", b.zobrist(), twin.zobrist()),
                ));
            }
            if hash_trait_bytes(&twin) != hash_trait_bytes(b) {
                d.push(Divergence::new("hash-trait-differs-for-equal-boards", format!("{fen}: equal boards feed different bytes to Hasher")));
            }
        }
        // neighbours of this position that differ in exactly one identity component (marker removed,
        // one right removed): whenever the implementation's `==` calls two of them equal, their hashes
        // (and the bytes fed to a Hasher) must be equal too
        // (neighbour, may the influence clause be applied to it?)
        let mut neighbours: Vec<(Position, bool)> = vec![];
        if let Some(e) = rp.ep_square() {
            let mut q = rp.clone();
            q.ep = None;
            // a hash may fold the marker's key in only when a capture is actually possible (Polyglot
            // style): the influence clause is applied to the marker only when a pawn stands ready
            let rank = if rp.turn == refchess::Col::W { 4u8 } else { 3u8 };
            let capturer = [-1i8, 1].iter().any(|d| {
                let f = (e % 8) as i8 + d;
                (0..8).contains(&f) && rp.at(rank * 8 + f as u8) == Some((rp.turn, refchess::Pc::P))
            });
            neighbours.push((q, capturer));
        }
        for i in 0..4 {
            if rp.rights[i] {
                let mut q = rp.clone();
                q.rights[i] = false;
                neighbours.push((q, true));
            }
        }
        // ... and two more kinds of neighbour: the other side to move (only without a marker, so that
        // one component changes) and one man removed (the first three non-king men)
        if rp.ep.is_none() {
            let mut q = rp.clone();
            q.turn = rp.turn.flip();
            neighbours.push((q, true));
        }
        let mut removed = 0;
        for sq in 0..64u8 {
            if let Some((_, pc)) = rp.at(sq) {
                if pc != refchess::Pc::K && removed < 3 {
                    let mut q = rp.clone();
                    q.board[sq as usize] = None;
                    q.ep = None;
                    // rights that need the removed man are dropped by the parser's validation: keep the
                    // comparison to neighbours the parser accepts as they are
                    if rp.ep.is_none() {
                        neighbours.push((q, true));
                        removed += 1;
                    }
                }
            }
        }
        // two men of one colour but different kinds exchanged (king and queen, rook and bishop, ...):
        // a different position whatever an equality shortcut may think
        if rp.ep.is_none() {
            let men: Vec<(u8, refchess::Col, refchess::Pc)> = (0..64u8).filter_map(|s| rp.at(s).map(|(c, p)| (s, c, p))).collect();
            let mut swaps = 0;
            'outer: for (i, a) in men.iter().enumerate() {
                for b2 in men.iter().skip(i + 1) {
                    if a.1 == b2.1 && a.2 != b2.2 && a.2 != refchess::Pc::P && b2.2 != refchess::Pc::P {
                        let mut q = rp.clone();
                        q.board[a.0 as usize] = Some((b2.1, b2.2));
                        q.board[b2.0 as usize] = Some((a.1, a.2));
                        q.rights = [false; 4];
                        if rp.rights.iter().all(|x| !*x) {
                            // four keys differ here: only 'equal boards hash equal' applies
                            neighbours.push((q, false));
                            swaps += 1;
                            if swaps >= 3 {
                                break 'outer;
                            }
                        }
                    }
                }
            }
        }
        for (q, one_component) in neighbours {
            if let Ok(nb) = parse_board(&q.to_fen()) {
                if nb == *b && (nb.zobrist() != b.zobrist() || hash_trait_bytes(&nb) != hash_trait_bytes(b)) {
                    d.push(Divergence::new(
                        "equal-boards-hash-differently",
                        format!("'{fen}' == '{}' according to the implementation, but their hashes differ", q.to_fen()),
                    ));
                }
                // every component influences the hash: the keys are pairwise distinct and non-zero, so a
                // position that differs in exactly one component cannot hash the same
                if one_component && nb != *b && nb.zobrist() == b.zobrist() {
                    d.push(Divergence::new(
                        "component-does-not-influence-hash",
                        format!("'{fen}' and '{}' differ in one component (and are unequal according to the implementation) but hash the same ({})", q.to_fen(), b.zobrist()),
                    ));
                }
            }
        }
        // clocks are not part of the identity: same position with other clocks hashes the same
        // (one setting below the fifty-move limit, one at it, one at the parser's maximum)
        for (half, full) in [((rp.half + 7) % 90, rp.full + 3), (100, rp.full), (if rp.half >= 100 { 99 } else { 101 + rp.half % 50 }, 1), (9999, 9999)] {
            let mut other = rp.clone();
            other.half = half;
            other.full = full;
            if let Ok(o) = parse_board(&other.to_fen()) {
                if o == *b && (o.zobrist() != b.zobrist() || hash_trait_bytes(&o) != hash_trait_bytes(b)) {
                    d.push(Divergence::new("hash-depends-on-clocks", format!("{fen}: hash changes with the clocks (half-move {half}, full-move {full})")));
                }
            }
        }
        // the same position assembled through the builder (possible from outside the crate only
        // without castling rights): in square order, and with redundant calls (setters repeated,
        // a piece placed, removed and placed again, reverse order)
        if !rp.rights.iter().any(|x| *x) {
            for variant in 0..2 {
                let mut bld = Board::builder();
                if variant == 1 {
                    bld.turn(real_color(rp.turn.flip())).turn(real_color(rp.turn.flip()));
                    bld.enpassant(chess_bitboard::File::from_u8(3).unwrap());
                }
                bld.turn(real_color(rp.turn));
                if variant == 1 {
                    bld.turn(real_color(rp.turn));
                }
                bld.half_move_clock(rp.half as u16).full_move_clock(rp.full as u16);
                bld.enpassant(rp.ep.map(|f| chess_bitboard::File::from_u8(f as u8).unwrap()));
                let squares: Vec<u8> = if variant == 0 { (0..64).collect() } else { (0..64).rev().collect() };
                let mut first = true;
                for s in squares {
                    if let Some((c, p)) = rp.at(s) {
                        let _ = bld.place(pos(s), real_color(c), real_piece(p));
                        if variant == 1 && first {
                            bld.remove(pos(s));
                            let _ = bld.place(pos(s), real_color(c), real_piece(p));
                            // a refused placement on an occupied square must leave the key alone
                            let _ = bld.place(pos(s), real_color(c.flip()), real_piece(refchess::Pc::Q));
                            first = false;
                        }
                    }
                }
                if let Ok(t) = bld.build() {
                    if t == *b && (t.zobrist() != b.zobrist() || hash_trait_bytes(&t) != hash_trait_bytes(b)) {
                        d.push(Divergence::new(
                            "builder-board-hashes-differently",
                            format!("{fen}: the board assembled through the builder ({}) equals this one but hashes {} vs {}", if variant == 0 { "plain" } else { "with redundant calls" }, t.zobrist(), b.zobrist()),
                        ));
                    }
                }
            }
        }
    }
    d
}

/// the 794 keys
pub fn c04_keys() -> (Vec<(String, u64)>, Vec<Divergence>) {
    use chess_bitboard::{Color, File, Piece};
    let mut keys: Vec<(String, u64)> = vec![];
    for color in [Color::White, Color::Black] {
        for s in 0..64u8 {
            for piece in [Piece::Pawn, Piece::Knight, Piece::Bishop, Piece::Rook, Piece::Queen, Piece::King] {
                keys.push((format!("{color:?}-{piece:?}-{}", refchess::sq_name(s)), chess_lookup::zobrist(pos(s), piece, color)));
            }
        }
    }
    for i in 0..16 {
        keys.push((format!("castle-{i}"), chess_lookup::castle_rights_zobrist(i)));
    }
    for f in 0..8u8 {
        keys.push((format!("ep-{}", (b'a' + f) as char), chess_lookup::en_passant_zobrist(File::from_u8(f).unwrap())));
    }
    keys.push(("turn-white".into(), chess_lookup::turn_zobrist(Color::White)));
    keys.push(("turn-black".into(), chess_lookup::turn_zobrist(Color::Black)));
    let mut d = vec![];
    for (n, k) in &keys {
        if *k == 0 {
            d.push(Divergence::new("zero-key", format!("key {n} is zero")));
        }
    }
    let mut sorted: Vec<(u64, &String)> = keys.iter().map(|(n, k)| (*k, n)).collect();
    sorted.sort();
    for w in sorted.windows(2) {
        if w[0].0 == w[1].0 {
            d.push(Divergence::new("duplicate-key", format!("keys {} and {} are equal", w[0].1, w[1].1)));
        }
    }
    (keys, d)
}

// ------------------------------------------------------------------ C05

pub fn c05_state(rp: &Position, b: &Board) -> Vec<Divergence> {
    let mut d = vec![];
    let fen = rp.to_fen();
    // board -> text -> board
    let text = b.to_string();
    if text != fen {
        let field = text.split(' ').zip(fen.split(' ')).position(|(a, b)| a != b).unwrap_or(9);
        let names = ["placement", "turn", "rights", "en-passant", "half-move", "full-move"];
        d.push(Divergence::new(
            format!("writer-not-canonical:{}", names.get(field).copied().unwrap_or("field-count")),
            format!("board writes '{text}', canonical FEN is '{fen}'"),
        ));
    }
    match parse_board(&text) {
        Ok(back) => {
            if back != *b
                || back.half_move_clock() != b.half_move_clock()
                || back.full_move_clock() != b.full_move_clock()
                || back.zobrist() != b.zobrist()
            {
                d.push(Divergence::new("write-parse-not-identity", format!("parse(to_string(b)) differs from b for '{text}'")));
            } else if format!("{back:?}") != format!("{b:?}") {
                d.push(Divergence::new("write-parse-derived-state-differs", format!("parse(to_string(b)) has different derived state for '{text}'")));
            }
        }
        Err(e) => {
            let ep = if rp.ep.is_some() { "with-ep" } else { "no-ep" };
            d.push(Divergence::new(format!("own-text-rejected:{ep}"), format!("parser rejects the writer's own output '{text}': {e}")));
        }
    }
    // text -> board -> text
    match parse_board(&fen) {
        Ok(p) => {
            let again = p.to_string();
            if again != fen {
                let ep = if rp.ep.is_some() { "with-ep" } else { "no-ep" };
                d.push(Divergence::new(format!("parse-write-not-identity:{ep}"), format!("'{fen}' parses and writes back as '{again}'")));
            }
            let got = read_back(&p);
            if let Some(diff) = diff_position(&got, rp) {
                d.push(Divergence::new("parse-wrong-board", format!("'{fen}' parsed wrongly: {diff}")));
            }
            // the incremental builder is the third constructor: for every rights-free position (all the
            // public API can assemble) it produces the identical board, derived state included
            if !rp.rights.iter().any(|x| *x) {
                // three call orders: FEN field order; en-passant first and turn last; placements first
                // and the double-stepped pawn (or the first man) removed and placed again at the end
                for variant in 0..3 {
                    let mut bld = Board::builder();
                    let ep_file = rp.ep.map(|f| chess_bitboard::File::from_u8(f as u8).unwrap());
                    let place_all = |bld: &mut chess_movegen::BoardBuilder| {
                        for s in 0..64u8 {
                            if let Some((c, pc)) = rp.at(s) {
                                let _ = bld.place(pos(s), real_color(c), real_piece(pc));
                            }
                        }
                    };
                    match variant {
                        0 => {
                            bld.turn(real_color(rp.turn)).half_move_clock(rp.half as u16).full_move_clock(rp.full as u16);
                            bld.enpassant(ep_file);
                            place_all(&mut bld);
                        }
                        1 => {
                            bld.enpassant(ep_file);
                            place_all(&mut bld);
                            bld.half_move_clock(rp.half as u16).full_move_clock(rp.full as u16);
                            bld.turn(real_color(rp.turn));
                        }
                        _ => {
                            place_all(&mut bld);
                            bld.turn(real_color(rp.turn));
                            bld.enpassant(ep_file);
                            // the pawn that made the double step stands on the mover's fifth rank
                            let target = rp.ep.map(|f| (if rp.turn == refchess::Col::W { 4u8 } else { 3u8 }) * 8 + f as u8).or_else(|| (0..64u8).find(|&s| rp.at(s).is_some()));
                            if let Some(sq) = target {
                                if let Some((c, pc)) = rp.at(sq) {
                                    bld.remove(pos(sq));
                                    let _ = bld.place(pos(sq), real_color(c), real_piece(pc));
                                }
                            }
                            bld.half_move_clock(rp.half as u16).full_move_clock(rp.full as u16);
                        }
                    }
                    match bld.build() {
                        Ok(t) => {
                            if t != p || t.half_move_clock() != p.half_move_clock() || t.full_move_clock() != p.full_move_clock() || t.zobrist() != p.zobrist() || t.to_string() != fen {
                                d.push(Divergence::new("builder-differs-from-parser", format!("'{fen}': the builder's board (call order {variant}) writes '{t}'")));
                            } else if variant == 0 && (format!("{t:?}") != format!("{p:?}") || t.in_check() != p.in_check() || t.state() != p.state() || t.legals().len() != p.legals().len()) {
                                d.push(Divergence::new("builder-derived-state-differs-from-parser", format!("'{fen}': same position, different check / pin information")));
                            }
                        }
                        Err(e) => d.push(Divergence::new("builder-and-parser-disagree-on-acceptance", format!("'{fen}': parser accepts, builder (call order {variant}): {e:?}"))),
                    }
                }
            }
        }
        Err(e) => d.push(Divergence::new("canonical-fen-rejected", format!("'{fen}' rejected: {e}"))),
    }
    d
}
