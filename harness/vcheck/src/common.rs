//! Plumbing shared by every check: type conversions between the reference model and the real
//! crates, violation bookkeeping (with the known-findings protocol), evidence and replay writers.

use chess_bitboard::{Color, Piece, Pos, PromotionPiece};
use chess_movegen::{Board, ChessMove};
use refchess::{Col, Mv, Pc, Position};
use serde_json::{json, Value};
use std::collections::BTreeMap;
use std::sync::Mutex;
use std::time::Instant;

pub const VERIF: &str = "/verif";

#[derive(Clone, Copy, PartialEq, Eq, Debug)]
pub enum Tier {
    Quick,
    Thorough,
}

impl Tier {
    pub fn name(self) -> &'static str {
        match self {
            Tier::Quick => "quick",
            Tier::Thorough => "thorough",
        }
    }
    pub fn pick<T>(self, q: T, t: T) -> T {
        match self {
            Tier::Quick => q,
            Tier::Thorough => t,
        }
    }
}

// ---------------------------------------------------------------- conversions

pub fn pos(s: u8) -> Pos {
    Pos::from_u8(s).expect("square index < 64")
}

pub fn real_piece(p: Pc) -> Piece {
    match p {
        Pc::P => Piece::Pawn,
        Pc::N => Piece::Knight,
        Pc::B => Piece::Bishop,
        Pc::R => Piece::Rook,
        Pc::Q => Piece::Queen,
        Pc::K => Piece::King,
    }
}

pub fn ref_piece(p: Piece) -> Pc {
    match p {
        Piece::Pawn => Pc::P,
        Piece::Knight => Pc::N,
        Piece::Bishop => Pc::B,
        Piece::Rook => Pc::R,
        Piece::Queen => Pc::Q,
        Piece::King => Pc::K,
    }
}

pub fn real_color(c: Col) -> Color {
    match c {
        Col::W => Color::White,
        Col::B => Color::Black,
    }
}

pub fn ref_color(c: Color) -> Col {
    match c {
        Color::White => Col::W,
        Color::Black => Col::B,
    }
}

pub fn real_promo(p: Pc) -> PromotionPiece {
    match p {
        Pc::N => PromotionPiece::Knight,
        Pc::B => PromotionPiece::Bishop,
        Pc::R => PromotionPiece::Rook,
        Pc::Q => PromotionPiece::Queen,
        _ => panic!("not a promotion piece"),
    }
}

pub fn real_mv(m: Mv) -> ChessMove {
    ChessMove { source: pos(m.from), dest: pos(m.to), piece: m.promo.map(real_promo) }
}

pub fn ref_mv(m: ChessMove) -> Mv {
    Mv {
        from: m.source as u8,
        to: m.dest as u8,
        promo: m.piece.map(|p| match p {
            PromotionPiece::Knight => Pc::N,
            PromotionPiece::Bishop => Pc::B,
            PromotionPiece::Rook => Pc::R,
            PromotionPiece::Queen => Pc::Q,
        }),
    }
}

pub fn parse_board(fen: &str) -> Result<Board, String> {
    fen.parse::<Board>().map_err(|e| format!("{e:?}"))
}

/// Read a real board back through its accessors into a reference position.  Castling rights
/// and the ep marker have no accessor; they are recovered from the `Debug` rendering
/// ("castle rights: KQkq", "en-passant: D"), which is independent of the FEN writer, and then
/// CONFIRMED through `Eq`: the candidate position is written as FEN by the reference, parsed,
/// and must compare equal to `b`.  If it does not (the Debug format changed, say), all 16 x 9
/// (rights, marker) candidates are probed through `Eq`, so a cosmetic change of the Debug text
/// cannot turn into a false alarm.
pub fn read_back(b: &Board) -> Position {
    let p = read_back_debug(b);
    // `Eq` ignores the clocks, and FEN cannot carry every clock value: confirm with neutral clocks
    let confirm = |q: &Position| -> Option<bool> {
        let mut n = q.clone();
        n.half = 0;
        n.full = 1;
        parse_board(&n.to_fen()).ok().map(|x| x == *b)
    };
    match confirm(&p) {
        Some(true) | None => p,
        Some(false) => {
            for r in 0..16u8 {
                for ep in (0..8).map(Some).chain([None]) {
                    let mut q = p.clone();
                    for i in 0..4 {
                        q.rights[i] = r & (1 << i) != 0;
                    }
                    q.ep = ep;
                    if confirm(&q) == Some(true) {
                        return q;
                    }
                }
            }
            p
        }
    }
}

fn read_back_debug(b: &Board) -> Position {
    let mut p = Position::empty();
    for s in 0..64u8 {
        p.board[s as usize] = b.raw().get(pos(s)).map(|(c, pc)| (ref_color(c), ref_piece(pc)));
    }
    p.turn = ref_color(b.turn());
    p.half = b.half_move_clock() as u32;
    p.full = b.full_move_clock() as u32;
    let dbg = debug_head(b);
    for line in dbg.lines() {
        if let Some(r) = line.strip_prefix("castle rights: ") {
            for (i, ch) in ['K', 'Q', 'k', 'q'].iter().enumerate() {
                p.rights[i] = r.contains(*ch);
            }
        }
        if let Some(e) = line.strip_prefix("en-passant: ") {
            let e = e.trim();
            if e.len() == 1 {
                let f = e.as_bytes()[0].to_ascii_lowercase();
                if (b'a'..=b'h').contains(&f) {
                    p.ep = Some((f - b'a') as i8);
                }
            }
        }
    }
    p
}

/// the header lines of the Debug rendering (turn .. castle rights), without formatting the
/// 8x8 board that follows: the writer refuses everything after "move zobrist"
pub fn debug_head(b: &Board) -> String {
    use std::fmt::Write;
    struct Head(String);
    impl Write for Head {
        fn write_str(&mut self, s: &str) -> std::fmt::Result {
            self.0.push_str(s);
            if self.0.contains("\nmove zobrist") {
                Err(std::fmt::Error)
            } else {
                Ok(())
            }
        }
    }
    let mut h = Head(String::with_capacity(128));
    let _ = write!(h, "{b:?}");
    h.0
}

/// field-by-field description of how a real board differs from the reference position
pub fn diff_position(got: &Position, want: &Position) -> Option<String> {
    if got == want {
        return None;
    }
    let mut parts = vec![];
    if got.board != want.board {
        parts.push(format!("placement {} != {}", got.placement_fen(), want.placement_fen()));
    }
    if got.turn != want.turn {
        parts.push("side to move".to_string());
    }
    if got.rights != want.rights {
        parts.push(format!("rights {} != {}", got.rights_str(), want.rights_str()));
    }
    if got.ep != want.ep {
        parts.push(format!("ep {:?} != {:?}", got.ep, want.ep));
    }
    if got.half != want.half {
        parts.push(format!("half-move {} != {}", got.half, want.half));
    }
    if got.full != want.full {
        parts.push(format!("full-move {} != {}", got.full, want.full));
    }
    Some(parts.join("; "))
}

pub fn moves_str(ms: &[Mv]) -> String {
    ms.iter().map(|m| m.uci()).collect::<Vec<_>>().join(" ")
}

// ---------------------------------------------------------------- divergences

/// One observed disagreement between the implementation and the oracle.
#[derive(Clone, Debug)]
pub struct Divergence {
    /// stable, machine-matchable signature of *what* fails (used by known_findings.json)
    pub class: String,
    pub detail: String,
}

impl Divergence {
    pub fn new(class: impl Into<String>, detail: impl Into<String>) -> Self {
        Divergence { class: class.into(), detail: detail.into() }
    }
}

#[derive(Clone, Debug)]
pub struct Finding {
    pub id: String,
    pub property: String,
    pub status: String,
    pub class: String,
    pub what: String,
}

pub fn load_known_findings() -> Vec<Finding> {
    let path = format!("{VERIF}/known_findings.json");
    let Ok(text) = std::fs::read_to_string(&path) else { return vec![] };
    let v: Value = serde_json::from_str(&text).expect("known_findings.json is valid JSON");
    v["findings"]
        .as_array()
        .map(|a| {
            a.iter()
                .map(|f| Finding {
                    id: f["id"].as_str().unwrap_or("").to_string(),
                    property: f["property"].as_str().unwrap_or("").to_string(),
                    status: f["status"].as_str().unwrap_or("").to_string(),
                    class: f["class"].as_str().unwrap_or("").to_string(),
                    what: f["what"].as_str().unwrap_or("").to_string(),
                })
                .collect()
        })
        .unwrap_or_default()
}

/// Collects everything a run observes and turns it into the exit protocol.
pub struct Report {
    pub property: String,
    pub tier: Tier,
    pub seed: u64,
    pub level: &'static str,
    pub start: Instant,
    known: Vec<Finding>,
    inner: Mutex<ReportInner>,
}

#[derive(Default)]
struct ReportInner {
    /// class -> (count, first replay case, first detail)
    by_class: BTreeMap<String, (u64, Value, String)>,
}

impl Report {
    pub fn new(property: &str, tier: Tier, seed: u64, level: &'static str) -> Report {
        Report {
            property: property.to_string(),
            tier,
            seed,
            level,
            start: Instant::now(),
            known: load_known_findings(),
            inner: Mutex::new(ReportInner::default()),
        }
    }

    /// record divergences found on one case; `case` must be enough for `vcheck replay`
    pub fn record(&self, divs: &[Divergence], case: impl Fn() -> Value) {
        if divs.is_empty() {
            return;
        }
        let mut g = self.inner.lock().unwrap();
        for d in divs {
            match g.by_class.get_mut(&d.class) {
                Some(e) => e.0 += 1,
                None => {
                    g.by_class.insert(d.class.clone(), (1, case(), d.detail.clone()));
                }
            }
        }
    }

    pub fn divergence_classes(&self) -> usize {
        self.inner.lock().unwrap().by_class.len()
    }

    /// Print KNOWN-FINDING / VIOLATION lines, write replay files; returns the number of
    /// violations that are not listed as known.
    pub fn conclude(&self) -> u64 {
        if std::env::var("VCHECK_SUBRUN").is_ok() {
            // a sub-run (same check in another build flavour) hands its divergences to the parent
            let g = self.inner.lock().unwrap();
            for (class, (count, _case, detail)) in g.by_class.iter() {
                println!("SUBRUN-DIVERGENCE\t{class}\t{count}\t{}", detail.replace('\n', " "));
            }
            return g.by_class.len() as u64;
        }
        if is_worker() {
            // a worker only looks for crashes; value divergences are the owning property's business
            return 0;
        }
        let g = self.inner.lock().unwrap();
        let mut violations = 0;
        let _ = std::fs::create_dir_all(format!("{VERIF}/replays"));
        for (class, (count, case, detail)) in g.by_class.iter() {
            let known = self
                .known
                .iter()
                .find(|f| f.property == self.property && f.status == "known" && f.class == *class);
            match known {
                Some(f) => {
                    println!(
                        "KNOWN-FINDING: property={} {} [{}] ({} occurrences; e.g. {})",
                        self.property, f.what, f.id, count, detail
                    );
                }
                None => {
                    violations += 1;
                    let file = format!(
                        "{VERIF}/replays/{}-{}.json",
                        self.property,
                        class.chars().map(|c| if c.is_ascii_alphanumeric() || c == '-' { c } else { '_' }).collect::<String>()
                    );
                    let body = json!({
                        "property": self.property,
                        "class": class,
                        "occurrences": count,
                        "detail": detail,
                        "case": case,
                    });
                    std::fs::write(&file, serde_json::to_string_pretty(&body).unwrap()).expect("write replay");
                    println!("VIOLATION property={} replay={}", self.property, file);
                    println!("  class={class} occurrences={count}");
                    println!("  {detail}");
                }
            }
        }
        violations
    }

    /// write /verif/evidence/<id>.json
    pub fn write_evidence(&self, coverage: Value, assumptions: &[&str], violations: u64) {
        if std::env::var("VCHECK_SUBRUN").is_ok() {
            println!("SUBRUN-COVERAGE {}", json!({"evaluations": coverage["evaluations"], "bmi2_path": coverage["bmi2_path"]}));
            return;
        }
        if is_worker() {
            println!("WORKER-COVERAGE {} {}", self.property, serde_json::to_string(&json!({"evaluations": coverage["evaluations"], "states": coverage["states"]})).unwrap());
            return;
        }
        let _ = std::fs::create_dir_all(format!("{VERIF}/evidence"));
        let ev = json!({
            "property_id": self.property,
            "tier": self.tier.name(),
            "seed": self.seed,
            "level": self.level,
            "coverage": coverage,
            "assumptions": assumptions,
            "wall_s": (self.start.elapsed().as_secs_f64() * 1000.0).round() / 1000.0,
            "violations": violations,
        });
        std::fs::write(
            format!("{VERIF}/evidence/{}.json", self.property),
            serde_json::to_string_pretty(&ev).unwrap(),
        )
        .expect("write evidence");
    }

    /// the usual ending: conclude, write evidence, exit code
    pub fn finish(&self, coverage: Value, assumptions: &[&str]) -> i32 {
        let violations = self.conclude();
        self.write_evidence(coverage, assumptions, violations);
        println!(
            "{} {}: {} violation class(es), {:.1}s",
            self.property,
            self.tier.name(),
            violations,
            self.start.elapsed().as_secs_f64()
        );
        if violations > 0 {
            1
        } else {
            0
        }
    }
}

/// deterministic rotation of which cases go into `samples`
pub fn sample_pick(n: usize, seed: u64, want: usize) -> Vec<usize> {
    if n == 0 {
        return vec![];
    }
    let want = want.min(n);
    let step = (n / want).max(1);
    let off = (seed as usize) % step.max(1);
    (0..want).map(|i| n - 1 - (off + i * step) % n).collect()
}

pub fn machinery_failure(msg: &str) -> ! {
    eprintln!("MACHINERY-FAILURE: {msg}");
    std::process::exit(2);
}

// ---------------------------------------------------------------- C07 worker support

use std::sync::atomic::{AtomicBool, Ordering as AtomicOrdering};

/// true inside a C07 worker process (trapping build): evidence/replay files are not written,
/// every panic and fatal signal is reported on stderr together with the case in progress
pub static WORKER: AtomicBool = AtomicBool::new(false);

/// a quick-tier C07 worker runs reduced versions of the other properties' drivers
pub fn reduced() -> bool {
    is_worker() && std::env::var("VCHECK_REDUCED").is_ok()
}

pub fn is_worker() -> bool {
    WORKER.load(AtomicOrdering::Relaxed)
}

const CASE_CAP: usize = 700;

struct CaseBuf {
    len: std::cell::Cell<usize>,
    buf: std::cell::UnsafeCell<[u8; CASE_CAP]>,
}

thread_local! {
    static CUR: CaseBuf = const { CaseBuf { len: std::cell::Cell::new(0), buf: std::cell::UnsafeCell::new([0u8; CASE_CAP]) } };
}

/// main-process checks of the properties that drive unchecked fast paths keep track of the case
/// in progress too, so that a fatal signal (undefined behaviour in the shipped flavour) becomes a
/// VIOLATION with a replay instead of a dead harness
pub static TRACK: AtomicBool = AtomicBool::new(false);

/// remember what this thread is working on (only evaluated inside a worker or a tracking check)
pub fn set_case(f: impl FnOnce() -> String) {
    if !is_worker() && !TRACK.load(AtomicOrdering::Relaxed) {
        return;
    }
    let s = f();
    CUR.with(|c| {
        let n = s.len().min(CASE_CAP);
        unsafe { (&mut *c.buf.get())[..n].copy_from_slice(&s.as_bytes()[..n]) };
        c.len.set(n);
    });
}

pub fn current_case() -> String {
    CUR.with(|c| String::from_utf8_lossy(unsafe { &(&*c.buf.get())[..c.len.get()] }).into_owned())
}

extern "C" {
    fn signal(sig: i32, handler: extern "C" fn(i32)) -> usize;
    fn write(fd: i32, buf: *const u8, n: usize) -> isize;
    fn _exit(code: i32) -> !;
}

extern "C" fn on_fatal_signal(sig: i32) {
    unsafe {
        let head = b"\nC07-ABORT signal=";
        write(2, head.as_ptr(), head.len());
        let digits = [b'0' + (sig / 10) as u8, b'0' + (sig % 10) as u8];
        write(2, digits.as_ptr(), 2);
        let mid = b" case=";
        write(2, mid.as_ptr(), mid.len());
        CUR.with(|c| {
            write(2, (*c.buf.get()).as_ptr(), c.len.get());
        });
        write(2, b"\n".as_ptr(), 1);
        _exit(100 + sig);
    }
}

static mut FATAL_PATH: [u8; 160] = [0; 160];
static mut FATAL_LINE: [u8; 256] = [0; 256];
static mut FATAL_LINE_LEN: usize = 0;
static mut FATAL_PROP: [u8; 3] = [0; 3];

extern "C" {
    fn open(path: *const u8, flags: i32, mode: u32) -> i32;
    fn close(fd: i32) -> i32;
}

extern "C" fn on_fatal_signal_main(sig: i32) {
    unsafe {
        let line = &*std::ptr::addr_of!(FATAL_LINE);
        write(1, line.as_ptr(), FATAL_LINE_LEN);
        // O_WRONLY | O_CREAT | O_TRUNC
        let fd = open(std::ptr::addr_of!(FATAL_PATH) as *const u8, 0o1 | 0o100 | 0o1000, 0o644);
        if fd >= 0 {
            let a = b"{\"property\":\"";
            write(fd, a.as_ptr(), a.len());
            write(fd, std::ptr::addr_of!(FATAL_PROP) as *const u8, 3);
            let b = b"\",\"class\":\"fatal-signal-in-implementation\",\"occurrences\":1,\"detail\":\"the check process received fatal signal ";
            write(fd, b.as_ptr(), b.len());
            let digits = [b'0' + (sig / 10) as u8, b'0' + (sig % 10) as u8];
            write(fd, digits.as_ptr(), 2);
            let c = b" while executing safe calls of the implementation\",\"case\":{\"kind\":\"fatal\",\"worker_case\":";
            write(fd, c.as_ptr(), c.len());
            let mut wrote = false;
            CUR.with(|cur| {
                if cur.len.get() > 0 {
                    write(fd, (*cur.buf.get()).as_ptr(), cur.len.get());
                    wrote = true;
                }
            });
            if !wrote {
                write(fd, b"null".as_ptr(), 4);
            }
            write(fd, b"}}\n".as_ptr(), 3);
            close(fd);
        }
        _exit(1);
    }
}

/// For a property check running in the main process: a fatal signal is reported as a VIOLATION
/// (exit 1) with a replay file naming the case in progress.  `track` turns on per-case tracking.
pub fn install_fatal_verdict(prop: &str, track: bool) {
    if is_worker() || std::env::var("VCHECK_SUBRUN").is_ok() {
        return;
    }
    let _ = std::fs::create_dir_all(format!("{VERIF}/replays"));
    let path = format!("{VERIF}/replays/{prop}-fatal-signal-in-implementation.json\0");
    let line = format!("VIOLATION property={prop} replay={}\n  class=fatal-signal-in-implementation (the implementation crashed the check process; see the replay file for the case in progress)\n", path.trim_end_matches('\0'));
    unsafe {
        let p = &mut *std::ptr::addr_of_mut!(FATAL_PATH);
        p[..path.len().min(160)].copy_from_slice(&path.as_bytes()[..path.len().min(160)]);
        let l = &mut *std::ptr::addr_of_mut!(FATAL_LINE);
        let n = line.len().min(256);
        l[..n].copy_from_slice(&line.as_bytes()[..n]);
        FATAL_LINE_LEN = n;
        let pp = &mut *std::ptr::addr_of_mut!(FATAL_PROP);
        pp.copy_from_slice(&prop.as_bytes()[..3]);
        for sig in [6, 11, 4, 7, 8] {
            signal(sig, on_fatal_signal_main);
        }
    }
    TRACK.store(track, AtomicOrdering::Relaxed);
    // a panic raised inside the implementation (not caught by a driver's own catch_unwind, which
    // replaces this hook) is a verdict as well
    let prop_owned = prop.to_string();
    std::panic::set_hook(Box::new(move |info| {
        let loc = info.location().map(|l| format!("{}:{}", l.file(), l.line())).unwrap_or_else(|| "?".into());
        let msg = info.payload().downcast_ref::<String>().cloned().or_else(|| info.payload().downcast_ref::<&str>().map(|s| s.to_string())).unwrap_or_default();
        if loc.contains("/verif/harness") {
            eprintln!("MACHINERY-FAILURE: the harness panicked at {loc}: {msg}");
            std::process::exit(2);
        }
        let case = current_case();
        let path = format!("{VERIF}/replays/{prop_owned}-panic-in-implementation.json");
        let case_json: Value = serde_json::from_str(&case).unwrap_or(Value::Null);
        let body = json!({"property": prop_owned, "class": "panic-in-implementation", "occurrences": 1,
            "detail": format!("panic at {loc}: {msg}"), "case": {"kind": "fatal", "worker_case": case_json}});
        let _ = std::fs::write(&path, serde_json::to_string_pretty(&body).unwrap());
        println!("VIOLATION property={prop_owned} replay={path}");
        println!("  class=panic-in-implementation occurrences=1");
        println!("  panic at {loc}: {msg}");
        std::process::exit(1);
    }));
}

pub fn enter_worker_mode() {
    WORKER.store(true, AtomicOrdering::Relaxed);
    std::panic::set_hook(Box::new(|info| {
        let loc = info.location().map(|l| format!("{}:{}", l.file(), l.line())).unwrap_or_else(|| "?".into());
        let msg = info.payload().downcast_ref::<String>().cloned().or_else(|| info.payload().downcast_ref::<&str>().map(|s| s.to_string())).unwrap_or_default();
        eprintln!("C07-PANIC at={loc} msg={} case={}", msg.replace('\n', " "), current_case());
    }));
    unsafe {
        for sig in [6, 11, 4, 7, 8] {
            signal(sig, on_fatal_signal);
        }
    }
}

/// in a worker the silent hook of the drivers must not replace the reporting hook
pub fn silence_panics() {
    if !is_worker() {
        std::panic::set_hook(Box::new(|_| {}));
    }
}

pub fn restore_panics() {
    if !is_worker() {
        let _ = std::panic::take_hook();
    }
}
