//! C15: the bot plugin (real `libchess_bot.so`, loaded through the stable ABI) driven over
//! histories of set-board / make-move (legal and illegal) / evaluate calls, against a reference
//! board plus an occurrence counter.  Also the plugin leg of C11.

use crate::common::*;
use crate::roots::START_FEN;
use crate::search::CountingTimeout;
use chess_api::{ChessApiRef, ChessEngine};
use rayon::prelude::*;
use refchess::{Identity, Mv, Position};
use serde_json::{json, Value};
use std::collections::HashMap;
use std::sync::OnceLock;

pub const PLUGIN_PATH: &str = "/verif/target/bot/release/libchess_bot.so";

struct Api(ChessApiRef);
unsafe impl Sync for Api {}
unsafe impl Send for Api {}

static API: OnceLock<Api> = OnceLock::new();

fn api() -> &'static ChessApiRef {
    &API.get_or_init(|| match ChessApiRef::load_from_file(std::path::Path::new(PLUGIN_PATH)) {
        Ok(a) => Api(a),
        Err(e) => machinery_failure(&format!("cannot load the plugin {PLUGIN_PATH}: {e}")),
    })
    .0
}

pub fn new_engine() -> ChessEngine {
    api().new_engine()
}

#[derive(Clone, Debug, PartialEq)]
pub enum Op {
    Move(Mv),
    SetBoard(String),
    Evaluate(u64),
    /// set_board with a board assembled through `Board::builder()` (rights-free placements only),
    /// so that clock values beyond what a FEN can carry reach the plugin
    SetBoardClocks(String, u16, u16),
    /// submit the move the last `evaluate` proposed (whatever it was) with make_move
    SubmitSuggestion,
}

fn op_json(o: &Op) -> Value {
    match o {
        Op::Move(m) => json!({"move": m.uci()}),
        Op::SetBoard(f) => json!({"set_board": f}),
        Op::Evaluate(k) => json!({"evaluate": k}),
        Op::SetBoardClocks(f, h, n) => json!({"set_board_clocks": f, "half": h, "full": n}),
        Op::SubmitSuggestion => json!({"submit_suggestion": true}),
    }
}

fn op_from(v: &Value) -> Op {
    if let Some(m) = v["move"].as_str() {
        Op::Move(Mv::parse(m).unwrap())
    } else if v["submit_suggestion"].as_bool() == Some(true) {
        Op::SubmitSuggestion
    } else if let Some(f) = v["set_board_clocks"].as_str() {
        Op::SetBoardClocks(f.to_string(), v["half"].as_u64().unwrap() as u16, v["full"].as_u64().unwrap() as u16)
    } else if let Some(f) = v["set_board"].as_str() {
        Op::SetBoard(f.to_string())
    } else {
        Op::Evaluate(v["evaluate"].as_u64().unwrap())
    }
}

struct RefState {
    pos: Position,
    seen: HashMap<Identity, u32>,
}

impl RefState {
    fn new(pos: Position) -> Self {
        let mut seen = HashMap::new();
        // the position that was set (or the initial position) is its own first occurrence
        seen.insert(pos.identity(), 1);
        RefState { pos, seen }
    }
}

/// run one history on a fresh engine, checking every step; returns (steps, repetition flags seen, divergences)
pub fn run_history(ops: &[Op]) -> (u64, u64, Vec<Divergence>) {
    set_case(|| json!({"property": "C15", "case": {"kind": "plugin-history", "ops": ops.iter().map(op_json).collect::<Vec<_>>()}}).to_string());
    let r = std::panic::catch_unwind(|| {
        let mut d = vec![];
        let mut eng = new_engine();
        let mut rs = RefState::new(Position::start());
        let mut flags = 0u64;
        let mut steps = 0u64;
        let mut suggestion: Option<Mv> = None;
        let hist = |i: usize| ops[..=i].iter().map(|o| match o { Op::Move(m) => m.uci(), other => format!("{other:?}") }).collect::<Vec<_>>().join(" ");
        if diff_position(&read_back(&eng.board()), &rs.pos).is_some() {
            d.push(Divergence::new("plugin-initial-board-wrong", "a fresh engine does not hold the standard position"));
        }
        for (i, op) in ops.iter().enumerate() {
            steps += 1;
            // a suggestion is submitted like any other move
            let submitted;
            let op = match op {
                Op::SubmitSuggestion => match suggestion {
                    Some(m) => {
                        submitted = Op::Move(m);
                        &submitted
                    }
                    None => continue,
                },
                other => other,
            };
            match op {
                Op::SubmitSuggestion => unreachable!(),
                Op::SetBoard(fen) => {
                    let p = Position::from_fen(fen).unwrap();
                    let Ok(b) = parse_board(fen) else { continue };
                    eng.set_board(b);
                    rs = RefState::new(p);
                    if diff_position(&read_back(&eng.board()), &rs.pos).is_some() {
                        d.push(Divergence::new("plugin-board-wrong-after-set_board", hist(i)));
                    }
                }
                Op::SetBoardClocks(fen, half, full) => {
                    let mut p = Position::from_fen(fen).unwrap();
                    p.half = *half as u32;
                    p.full = *full as u32;
                    let mut bld = chess_movegen::Board::builder();
                    bld.turn(real_color(p.turn)).half_move_clock(*half).full_move_clock(*full);
                    for s in 0..64u8 {
                        if let Some((c, pc)) = p.at(s) {
                            let _ = bld.place(pos(s), real_color(c), real_piece(pc));
                        }
                    }
                    let Ok(b) = bld.build() else { continue };
                    eng.set_board(b);
                    rs = RefState::new(p);
                    if diff_position(&read_back(&eng.board()), &rs.pos).is_some() {
                        d.push(Divergence::new("plugin-board-wrong-after-set_board", hist(i)));
                    }
                }
                Op::Move(m) => {
                    let legal = rs.pos.legal_moves().contains(m);
                    let before = eng.board();
                    let res = eng.make_move(real_mv(*m));
                    if res.is_valid != legal {
                        d.push(Divergence::new(
                            if legal { "plugin-rejects-legal-move" } else { "plugin-accepts-illegal-move" },
                            format!("[{}] in {}: is_valid = {}", hist(i), rs.pos.to_fen(), res.is_valid),
                        ));
                        return (steps, flags, d);
                    }
                    if !legal {
                        let after = eng.board();
                        if after != before || after.zobrist() != before.zobrist() || after.half_move_clock() != before.half_move_clock() || after.full_move_clock() != before.full_move_clock() {
                            d.push(Divergence::new("plugin-board-changed-by-invalid-move", hist(i)));
                        }
                        if res.is_three_fold_draw {
                            d.push(Divergence::new("plugin-flags-repetition-on-invalid-move", hist(i)));
                        }
                        continue;
                    }
                    rs.pos = rs.pos.make(*m);
                    // beyond the 16-bit limit the rules' value cannot be represented and no property says
                    // what the counter does there: the reference follows the implementation from then on
                    {
                        let now = eng.board();
                        if rs.pos.half >= 65535 {
                            rs.pos.half = now.half_move_clock() as u32;
                        }
                        if rs.pos.full >= 65535 {
                            rs.pos.full = now.full_move_clock() as u32;
                        }
                    }
                    let c = rs.seen.entry(rs.pos.identity()).or_insert(0);
                    *c += 1;
                    let want_flag = *c == 3;
                    if let Some(diff) = diff_position(&read_back(&eng.board()), &rs.pos) {
                        d.push(Divergence::new("plugin-board-differs-from-reference-successor", format!("[{}]: {diff}", hist(i))));
                        return (steps, flags, d);
                    }
                    if res.is_three_fold_draw != want_flag {
                        d.push(Divergence::new(
                            if want_flag { "threefold-not-flagged-on-third-occurrence" } else { "threefold-flagged-without-third-occurrence" },
                            format!("[{}]: occurrence {} of {} since the board was set, flag = {}", hist(i), *c, rs.pos.epd(), res.is_three_fold_draw),
                        ));
                    }
                    if want_flag {
                        flags += 1;
                    }
                }
                Op::Evaluate(k) => {
                    let t = CountingTimeout::new(*k);
                    let before = eng.board();
                    let (mv, _score) = eng.evaluate(&t);
                    suggestion = mv.map(ref_mv);
                    if let Some(m) = mv {
                        if !rs.pos.legal_moves().contains(&ref_mv(m)) {
                            d.push(Divergence::new("plugin-proposes-illegal-move", format!("[{}]: proposes {}", hist(i), ref_mv(m).uci())));
                        }
                    }
                    if eng.board() != before {
                        d.push(Divergence::new("plugin-evaluate-changes-board", hist(i)));
                    }
                }
            }
        }
        (steps, flags, d)
    });
    match r {
        Ok(x) => x,
        Err(_) => (0, 0, vec![Divergence::new("plugin-panics", format!("{ops:?}"))]),
    }
}

/// all histories over `alphabet` up to `depth` plies of *legal* moves; every alphabet move that
/// is illegal at a node is submitted there once (a self-loop in the state graph)
fn enumerate(alphabet: &[Mv], depth: usize, start: &Position, prefix: &[Op], out: &mut Vec<Vec<Op>>) {
    fn rec(alphabet: &[Mv], depth: usize, pos: &Position, cur: &mut Vec<Op>, out: &mut Vec<Vec<Op>>) {
        let legal = pos.legal_moves();
        let mut extended = false;
        if depth > 0 {
            for m in alphabet {
                if legal.contains(m) {
                    extended = true;
                    cur.push(Op::Move(*m));
                    rec(alphabet, depth - 1, &pos.make(*m), cur, out);
                    cur.pop();
                }
            }
        }
        if !extended {
            // leaf: submit every illegal alphabet move here, then one evaluate
            let mut h = cur.clone();
            for m in alphabet {
                if !legal.contains(m) {
                    h.push(Op::Move(*m));
                }
            }
            out.push(h);
        }
    }
    let mut cur = prefix.to_vec();
    rec(alphabet, depth, start, &mut cur, out);
}

fn mv(s: &str) -> Mv {
    Mv::parse(s).unwrap()
}

pub fn c15_histories(tier: Tier) -> Vec<Vec<Op>> {
    let start = Position::start();
    let mut out = vec![];
    // B: knight shuffles, positions must recur
    let knights: Vec<Mv> = ["g1f3", "f3g1", "b1c3", "c3b1", "g8f6", "f6g8", "b8c6", "c6b8"].iter().map(|s| mv(s)).collect();
    enumerate(&knights, tier.pick(16, 20), &start, &[], &mut out);
    // C: knights + rook shuffle (rights change, placement recurs) + king shuffle
    let rooks: Vec<Mv> = ["g1f3", "f3g1", "g8f6", "f6g8", "h1g1", "g1h1", "h8g8", "g8h8"].iter().map(|s| mv(s)).collect();
    enumerate(&rooks, tier.pick(12, 14), &start, &[], &mut out);
    // A: rich alphabet, shallow: double steps (ep marker), capture, castling, promotion-free
    let rich: Vec<Mv> = ["e2e4", "e7e5", "d7d5", "e4d5", "g1f3", "f3g1", "g8f6", "f6g8", "f1c4", "f8c5", "e1g1", "e8g8", "d8d5", "a2a4", "a4a5", "b7b5", "a5b6", "e1e2", "e2e1"].iter().map(|s| mv(s)).collect();
    enumerate(&rich, tier.pick(6, 7), &start, &[], &mut out);
    // set_board in the middle: knight shuffles after installing a board (fresh count, installed
    // position is occurrence one), and set_board after some shuffling (count must restart)
    let boards = [
        START_FEN,
        "r1bqkb1r/pppppppp/2n2n2/8/8/2N2N2/PPPPPPPP/R1BQKB1R w KQkq - 4 2",
        "rnbqkbnr/pppp1ppp/8/4p3/4P3/8/PPPP1PPP/RNBQKBNR w KQkq e6 0 1",
    ];
    for b in boards {
        let p = Position::from_fen(b).unwrap();
        for pre in [vec![], vec![Op::Move(mv("g1f3")), Op::Move(mv("g8f6")), Op::Move(mv("f3g1")), Op::Move(mv("f6g8"))]] {
            let mut prefix = pre.clone();
            prefix.push(Op::SetBoard(b.to_string()));
            let kn: Vec<Mv> = if b == boards[1] {
                ["f3g1", "g1f3", "c3b1", "b1c3", "f6g8", "g8f6", "c6b8", "b8c6"].iter().map(|s| mv(s)).collect()
            } else {
                knights.clone()
            };
            enumerate(&kn, tier.pick(12, 14), &p, &prefix, &mut out);
        }
    }
    // illegal submissions in the MIDDLE of a history (they must not disturb the counting that
    // follows): every knight-shuffle history of depth 12 (thorough 14) with one or two illegal
    // moves inserted at every position
    {
        let mut base = vec![];
        enumerate(&knights, tier.pick(12, 14), &start, &[], &mut base);
        let illegal = [mv("e2e5"), mv("e1e2"), mv("g1g3")];
        for h in &base {
            let legal_len = h.iter().take_while(|o| matches!(o, Op::Move(m) if knights.contains(m))).count().min(tier.pick(12, 14));
            for p in 0..=legal_len {
                for reps in 1..=2usize {
                    let mut g: Vec<Op> = h[..p].to_vec();
                    for r in 0..reps {
                        g.push(Op::Move(illegal[(p + r) % illegal.len()]));
                    }
                    g.extend_from_slice(&h[p..legal_len]);
                    out.push(g);
                }
            }
        }
    }
    // every legal move (reference) to depth 2 from every catalogue root installed with set_board:
    // promotions (all four pieces), en passant, castling through the stable move encoding
    {
        let (roots, _) = crate::roots::all_roots();
        for r in roots.iter() {
            if r.name.starts_with("perft0") || r.name.starts_with("perft27") {
                continue;
            }
            let fen = r.pos.to_fen();
            if parse_board(&fen).is_err() {
                continue;
            }
            for m1 in r.pos.legal_moves() {
                let p1 = r.pos.make(m1);
                let l2 = p1.legal_moves();
                // after a rule-special first move, moves that look playable but are illegal (they ignore
                // a check, move a pinned piece, ...) must still be refused
                if m1.promo.is_some() || crate::oracles::is_special(&r.pos, m1) || p1.in_check() {
                    let mut h = vec![Op::SetBoard(fen.clone()), Op::Move(m1)];
                    for x in p1.pseudo_illegal().into_iter().take(8) {
                        h.push(Op::Move(x));
                    }
                    if h.len() > 2 {
                        out.push(h);
                    }
                }
                if l2.is_empty() || tier == Tier::Quick && !(m1.promo.is_some() || crate::oracles::is_special(&r.pos, m1)) {
                    out.push(vec![Op::SetBoard(fen.clone()), Op::Move(m1)]);
                    continue;
                }
                for m2 in l2 {
                    out.push(vec![Op::SetBoard(fen.clone()), Op::Move(m1), Op::Move(m2)]);
                }
            }
        }
    }
    // one very long reversible manoeuvre: 262 knight-dance cycles (1 048 plies), every position
    // occurring more than 256 times - the flag is raised on the third occurrence and never again
    {
        let cyc = ["g1f3", "g8f6", "f3g1", "f6g8"];
        let h: Vec<Op> = (0..262 * 4).map(|i| Op::Move(Mv::parse(cyc[i % 4]).unwrap())).collect();
        out.push(h);
    }
    // clock values that only the builder can install (a FEN carries four digits): the counting of
    // occurrences must not depend on them
    for (half, full) in [(65535u16, 65535u16), (65534, 65535), (65533, 0), (65531, 65531), (9999, 9999), (100, 1), (99, 1), (0, 65535)] {
        for fen in ["1n2k3/8/8/8/8/8/8/1N2K3 w - - 0 1", "1n2k3/8/8/8/8/8/8/1N2K3 b - - 0 1"] {
            let white = fen.contains(" w ");
            let cyc: [&str; 4] = if white { ["b1c3", "b8c6", "c3b1", "c6b8"] } else { ["b8c6", "b1c3", "c6b8", "c3b1"] };
            let mut h = vec![Op::SetBoardClocks(fen.to_string(), half, full)];
            for i in 0..16 {
                h.push(Op::Move(Mv::parse(cyc[i % 4]).unwrap()));
            }
            out.push(h);
        }
    }
    // submissions that differ from a legal move in the promotion field only, and the root's own
    // pseudo-legal-but-illegal moves, straight after set_board: all refused, board unchanged, and a
    // legal move afterwards is still accepted and counted
    {
        let (roots, _) = crate::roots::all_roots();
        for r in roots.iter() {
            let fen = r.pos.to_fen();
            if parse_board(&fen).is_err() {
                continue;
            }
            let legal = r.pos.legal_moves();
            let mut bad: Vec<Mv> = vec![];
            let mut seen_promo = std::collections::BTreeSet::new();
            for m in &legal {
                if m.promo.is_some() {
                    if seen_promo.insert((m.from, m.to)) {
                        bad.push(Mv::new(m.from, m.to, None));
                    }
                }
            }
            if let Some(m) = legal.iter().find(|m| m.promo.is_none()) {
                for pc in [refchess::Pc::N, refchess::Pc::B, refchess::Pc::R, refchess::Pc::Q] {
                    bad.push(Mv::new(m.from, m.to, Some(pc)));
                }
            }
            bad.extend(r.pos.pseudo_illegal().into_iter().take(6));
            bad.retain(|m| !legal.contains(m));
            if bad.is_empty() {
                continue;
            }
            let mut h = vec![Op::SetBoard(fen.clone())];
            h.extend(bad.iter().map(|m| Op::Move(*m)));
            if let Some(m) = legal.first() {
                h.push(Op::Move(*m));
            }
            out.push(h);
        }
    }
    // roots carrying an en-passant marker can never recur themselves, but the marker-less twin does:
    // set_board(root with marker), then cycles; the third occurrence of the twin is two plies later
    // than a counter that took the marked root for its first occurrence would say
    {
        let (roots, _) = crate::roots::all_roots();
        for r in roots.iter() {
            if r.pos.ep.is_none() || r.name.starts_with("perft0") || r.name.starts_with("perft27") {
                continue;
            }
            let fen = r.pos.to_fen();
            if parse_board(&fen).is_err() {
                continue;
            }
            let mut found = 0;
            'eps: for m1 in r.pos.legal_moves() {
                let p1 = r.pos.make(m1);
                for m2 in p1.legal_moves() {
                    let p2 = p1.make(m2);
                    for m3 in p2.legal_moves() {
                        if m3.from != m1.to || m3.to != m1.from {
                            continue;
                        }
                        let p3 = p2.make(m3);
                        for m4 in p3.legal_moves() {
                            if m4.from != m2.to || m4.to != m2.from {
                                continue;
                            }
                            let p4 = p3.make(m4);
                            let mut twin = r.pos.clone();
                            twin.ep = None;
                            if p4.identity() == twin.identity() {
                                let mut h = vec![Op::SetBoard(fen.clone())];
                                for _ in 0..4 {
                                    h.extend([Op::Move(m1), Op::Move(m2), Op::Move(m3), Op::Move(m4)]);
                                }
                                out.push(h);
                                found += 1;
                                if found >= tier.pick(4, 20) {
                                    break 'eps;
                                }
                            }
                        }
                    }
                }
            }
        }
    }
    // four-ply cycles through every catalogue root: set_board(root), then each cycle three times,
    // so that the installed position (and the positions on the cycle) reach their third occurrence
    {
        let (roots, _) = crate::roots::all_roots();
        for r in roots.iter() {
            let fen = r.pos.to_fen();
            if parse_board(&fen).is_err() || r.name.starts_with("perft0") || r.name.starts_with("perft27") || r.name.starts_with("perft30") || r.name.starts_with("perft31") {
                continue;
            }
            let id0 = r.pos.identity();
            let mut found = 0;
            'search: for m1 in r.pos.legal_moves() {
                let p1 = r.pos.make(m1);
                for m2 in p1.legal_moves() {
                    let p2 = p1.make(m2);
                    for m3 in p2.legal_moves() {
                        // the mover goes back where it came from (keeps the search small)
                        if m3.from != m1.to || m3.to != m1.from {
                            continue;
                        }
                        let p3 = p2.make(m3);
                        for m4 in p3.legal_moves() {
                            if m4.from != m2.to || m4.to != m2.from {
                                continue;
                            }
                            if p3.make(m4).identity() == id0 {
                                let mut h = vec![Op::SetBoard(fen.clone())];
                                for _ in 0..3 {
                                    h.extend([Op::Move(m1), Op::Move(m2), Op::Move(m3), Op::Move(m4)]);
                                }
                                out.push(h);
                                found += 1;
                                if found >= tier.pick(8, 40) {
                                    break 'search;
                                }
                            }
                        }
                    }
                }
            }
        }
    }
    // the plugin's own suggestion submitted back: at once (legal, must be applied like any move),
    // after another move, and after a set_board to a position where it may be illegal
    {
        let other_boards = ["rnbqkbnr/pppppppp/8/8/8/8/PPPPPPPP/RNBQKBNR b KQkq - 0 1", "4k3/8/8/8/8/8/8/4K3 w - - 0 1", "r1bqkb1r/pppppppp/2n2n2/8/8/2N2N2/PPPPPPPP/R1BQKB1R w KQkq - 4 2"];
        let prefixes: Vec<Vec<Op>> = vec![vec![], vec![Op::Move(mv("e2e4"))], vec![Op::Move(mv("g1f3")), Op::Move(mv("g8f6"))], vec![Op::SetBoard(boards[2].to_string())]];
        for pre in &prefixes {
            for k in [30u64, 120, 600] {
                let mut a = pre.clone();
                a.extend([Op::Evaluate(k), Op::SubmitSuggestion, Op::SubmitSuggestion]);
                out.push(a);
                for ob in other_boards {
                    let mut b = pre.clone();
                    b.extend([Op::Evaluate(k), Op::SetBoard(ob.to_string()), Op::SubmitSuggestion, Op::Evaluate(k), Op::SubmitSuggestion]);
                    out.push(b);
                }
                let mut c = pre.clone();
                c.extend([Op::Evaluate(k), Op::Move(mv("a2a3")), Op::Move(mv("a7a6")), Op::SubmitSuggestion]);
                out.push(c);
            }
        }
    }
    // evaluate interleaved: a proposal must be legal and must not disturb board or counting
    let mut with_eval = vec![];
    for (i, h) in out.iter().enumerate() {
        if i % tier.pick(97, 13) == 0 {
            let mut g = vec![];
            for (j, op) in h.iter().enumerate() {
                if j % 3 == 1 {
                    g.push(Op::Evaluate(40 + (j as u64 % 5) * 50));
                }
                g.push(op.clone());
            }
            g.push(Op::Evaluate(0));
            with_eval.push(g);
        }
    }
    out.extend(with_eval);
    out
}

pub fn run_c15(args: &crate::Args) -> i32 {
    let report = Report::new("C15", args.tier, args.seed, "model_checking");
    silence_panics();
    let _ = api();
    let hs = c15_histories(args.tier);
    let res: Vec<(u64, u64, Vec<Divergence>)> = hs.par_iter().map(|h| run_history(h)).collect();
    let mut steps = 0u64;
    let mut flags = 0u64;
    let mut with_flag = 0u64;
    for (h, (s, f, d)) in hs.iter().zip(res.iter()) {
        steps += s;
        flags += f;
        if *f > 0 {
            with_flag += 1;
        }
        report.record(d, || json!({"kind": "plugin-history", "ops": h.iter().map(op_json).collect::<Vec<_>>()}));
    }
    restore_panics();
    if with_flag == 0 {
        machinery_failure("C15: no history reaches a third occurrence: vacuous");
    }
    let si = (args.seed as usize * 101 + 11) % hs.len();
    report.finish(
        json!({
            "states": steps,
            "transitions": steps,
            "traces_validated_against_impl": hs.len(),
            "evaluations": hs.len(),
            "distinct_nontrivial": with_flag,
            "rule": "every maximal history over three move alphabets from a fresh plugin engine (knight shuffles to depth 16/20 so positions must recur; knights + rook h1-g1-h1 / h8-g8-h8 to depth 12/14 so placements recur with different castling rights; a rich alphabet with double steps, capture and castling to depth 6/7), every alphabet move that is illegal at a leaf submitted there, set_board of three boards before and after shuffling followed by shuffles to depth 12/14, and every knight-shuffle history of depth 12/14 with one or two illegal submissions inserted at every position; set_board of every catalogue root followed by every legal move sequence of length <= 2 (promotions, en passant, castling through the stable move encoding); set_board of every catalogue root followed by up to 8 (thorough 40) four-ply cycles back to it, each played three times; roots with an en-passant marker followed by four cycles through their marker-less twin; after set_board of every catalogue root, submissions that differ from a legal move only in the promotion field (promotion squares without a piece, a plain move with each of the four pieces) and the root's own pseudo-legal-but-illegal moves, then a legal move; one 1048-ply knight dance (every position occurring more than 256 times); boards installed through the builder with clock values up to 65535 followed by four cycles; the plugin's own suggestion submitted back at once, after other moves, and after a set_board to another position; a strided subset re-run with evaluate calls interleaved. Each step is checked against the reference board and an occurrence counter that counts the installed position. states/transitions = plugin calls checked; non-trivial = histories in which a third occurrence is reached.",
            "histories": hs.len(),
            "third_occurrences_reached": flags,
            "exhaustive": true,
            "samples": [hs[si].iter().map(op_json).collect::<Vec<_>>()],
        }),
        &["the plugin is built from /repo (cargo build -p chess-bot --release) and loaded through chess_api::ChessApiRef", "position identity = placement, side to move, castling rights, en-passant marker file (as the property states)"],
    )
}

pub fn replay_c15(case: &Value) -> Vec<Divergence> {
    silence_panics();
    let ops: Vec<Op> = case["ops"].as_array().unwrap().iter().map(op_from).collect();
    run_history(&ops).2
}

// ------------------------------------------------------------------ C11 through the plugin

/// number of polls after which the first deepening pass of a direct search has certainly been
/// committed (twice what the first committing run consumed, plus slack), if that can be established
fn polls_for_first_pass(p: &Position) -> Option<u64> {
    let b = parse_board(&p.to_fen()).ok()?;
    match crate::search::first_pass(&b, false, 1 << 16) {
        Ok(Some(o)) => Some(2 * o.polls + 8),
        _ => None,
    }
}

fn plugin_search_case(p: &Position, k: u64) -> Vec<Divergence> {
    set_case(|| json!({"property": "C11", "case": {"kind": "plugin-search", "fen": p.to_fen(), "k": k}}).to_string());
    let fen = p.to_fen();
    let Ok(b) = parse_board(&fen) else { return vec![] };
    let legal = p.legal_moves();
    let r = std::panic::catch_unwind(|| {
        let mut eng = new_engine();
        eng.set_board(b);
        let t = CountingTimeout::new(k);
        eng.evaluate(&t)
    });
    match r {
        Err(_) => vec![Divergence::new("plugin-evaluate-panics", format!("{fen} k={k}"))],
        Ok((Some(m), _)) if !legal.contains(&ref_mv(m)) => vec![Divergence::new("plugin-evaluate-returns-illegal-move", format!("{fen} k={k}: {}", ref_mv(m).uci()))],
        Ok((Some(_), _)) => {
            PLUGIN_PROPOSALS.fetch_add(1, std::sync::atomic::Ordering::Relaxed);
            vec![]
        }
        Ok((None, _)) => {
            // legal moves exist and the limit is far beyond the first pass: a move is due
            if !legal.is_empty() && polls_for_first_pass(p).map_or(false, |need| k >= need) {
                vec![Divergence::new("plugin-evaluate-returns-no-move-after-a-complete-pass", format!("{fen} k={k}: legal moves exist and the first pass completes well before the limit, the plugin proposes nothing"))]
            } else {
                vec![]
            }
        }
    }
}

pub static PLUGIN_PROPOSALS: std::sync::atomic::AtomicU64 = std::sync::atomic::AtomicU64::new(0);

pub fn c11_through_plugin(positions: &[Position], tier: Tier, report: &Report) -> (u64, u64) {
    if !std::path::Path::new(PLUGIN_PATH).exists() {
        machinery_failure("plugin not built (run ./check C11, which builds it)");
    }
    let _ = api();
    let stride = (positions.len() / tier.pick(40, 200)).max(1);
    let sub: Vec<&Position> = positions.iter().step_by(stride).collect();
    let cap = tier.pick(300u64, 1500);
    let res: Vec<(u64, Vec<(u64, Vec<Divergence>)>)> = sub
        .par_iter()
        .map(|p| {
            let mut bad = vec![];
            for k in 0..=cap {
                let d = plugin_search_case(p, k);
                if !d.is_empty() {
                    bad.push((k, d));
                }
            }
            (cap + 1, bad)
        })
        .collect();
    if PLUGIN_PROPOSALS.load(std::sync::atomic::Ordering::Relaxed) == 0 {
        machinery_failure("C11 plugin leg: the plugin never proposed a move: vacuous");
    }
    let mut runs = 0;
    for (p, (r, bad)) in sub.iter().zip(res) {
        runs += r;
        for (k, d) in bad {
            report.record(&d, || json!({"kind": "plugin-search", "fen": p.to_fen(), "k": k}));
        }
    }
    (runs, sub.len() as u64)
}

pub fn replay_plugin_search(case: &Value) -> Vec<Divergence> {
    let p = Position::from_fen(case["fen"].as_str().unwrap()).unwrap();
    plugin_search_case(&p, case["k"].as_u64().unwrap())
}
