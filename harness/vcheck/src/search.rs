//! C11 (search returns a legal move whenever the limit may expire), C12 (mate in one found and
//! truthfully reported), C13 (colour symmetry).  The engine's only nondeterministic input is the
//! answer of `Timeout::is_complete`; a counting timeout flips it at poll k, for every k.

use crate::common::*;
use crate::explore::{family_positions, Family};
use crate::roots::*;
use crate::Args;
use chess_engine::{Engine, Score, ThreeFold, Timeout};
use chess_movegen::{Board, ChessMove};
use rayon::prelude::*;
use refchess::{Col, Mv, Position};
use serde_json::{json, Value};
use std::cell::Cell;
use std::collections::BTreeMap;

/// The engine logs a DEBUG event "start depth" with a `depth` field at the start of every deepening
/// pass.  With a subscriber installed this is a second, independent observation of "the first pass
/// finished": once the pass for depth >= 1 has started, pass 0 is over.  If the log statement ever
/// disappears this observation is simply absent (no verdict depends on its presence).
pub static PASS_WATCH_ON: std::sync::atomic::AtomicBool = std::sync::atomic::AtomicBool::new(false);
thread_local! {
    pub static DEEPEST_PASS_STARTED: Cell<Option<u64>> = const { Cell::new(None) };
}
pub struct PassWatcher;
impl<S: tracing::Subscriber> tracing_subscriber::Layer<S> for PassWatcher {
    fn on_event(&self, event: &tracing::Event<'_>, _ctx: tracing_subscriber::layer::Context<'_, S>) {
        struct V {
            depth: Option<u64>,
            is_start: bool,
        }
        impl tracing::field::Visit for V {
            fn record_u64(&mut self, field: &tracing::field::Field, value: u64) {
                if field.name() == "depth" {
                    self.depth = Some(value);
                }
            }
            fn record_debug(&mut self, field: &tracing::field::Field, value: &dyn std::fmt::Debug) {
                if field.name() == "message" && format!("{value:?}").contains("start depth") {
                    self.is_start = true;
                }
            }
        }
        let mut v = V { depth: None, is_start: false };
        event.record(&mut v);
        if v.is_start {
            if let Some(d) = v.depth {
                DEEPEST_PASS_STARTED.with(|c| c.set(Some(c.get().map_or(d, |x| x.max(d)))));
            }
        }
    }
}

/// polls 0..k-1 answer "not yet", every later poll answers "expired" (monotone, like a deadline)
pub struct CountingTimeout {
    pub k: u64,
    pub polls: Cell<u64>,
}

impl CountingTimeout {
    pub fn new(k: u64) -> Self {
        CountingTimeout { k, polls: Cell::new(0) }
    }
}

impl Timeout for CountingTimeout {
    fn is_complete(&self) -> bool {
        let n = self.polls.get();
        self.polls.set(n + 1);
        n >= self.k
    }
}

pub const SENTINEL: u16 = u16::MAX;

#[derive(Clone, Debug)]
pub struct Outcome {
    pub mv: Option<ChessMove>,
    pub score: Score,
    /// SENTINEL when no pass completed
    pub max_depth: u16,
    pub polls: u64,
}

pub fn search_k(board: &Board, k: u64, positional: bool) -> Result<Outcome, String> {
    DEEPEST_PASS_STARTED.with(|c| c.set(None));
    set_case(|| json!({"property": "C11", "case": {"kind": "search", "fen": board.to_string(), "k": k, "positional": positional}}).to_string());
    let r = std::panic::catch_unwind(|| {
        let mut engine = Engine::default();
        engine.positional = positional;
        engine.max_depth = SENTINEL;
        let tf = ThreeFold::new();
        let t = CountingTimeout::new(k);
        let (mv, score) = engine.search(board, &tf, &t);
        Outcome { mv, score, max_depth: engine.max_depth, polls: t.polls.get() }
    });
    r.map_err(|e| e.downcast_ref::<String>().cloned().or_else(|| e.downcast_ref::<&str>().map(|s| s.to_string())).unwrap_or_else(|| "panic".into()))
}

fn score_name(s: Score) -> String {
    match s {
        Score::Min => "Min".into(),
        Score::BlackMateIn(n) => format!("BlackMateIn({n})"),
        Score::Raw(x) => format!("Raw({x})"),
        Score::WhiteMateIn(n) => format!("WhiteMateIn({n})"),
        Score::Max => "Max".into(),
    }
}

// ------------------------------------------------------------------------------ C11

/// oracle for one (position, k)
pub fn c11_case(rp: &Position, board: &Board, legal: &[Mv], k: u64, positional: bool) -> (Option<Outcome>, Vec<Divergence>) {
    let fen = rp.to_fen();
    match search_k(board, k, positional) {
        Err(msg) => (None, vec![Divergence::new("search-panics", format!("{fen} k={k}: {msg}"))]),
        Ok(o) => {
            let mut d = vec![];
            match o.mv {
                Some(m) => {
                    if !legal.contains(&ref_mv(m)) {
                        let cls = if legal.is_empty() { "search-returns-move-in-terminal-position" } else { "search-returns-illegal-move" };
                        d.push(Divergence::new(cls, format!("{fen} expiry at poll {k}: returned {} which is not legal", ref_mv(m).uci())));
                    }
                }
                None => {
                    let next_pass_started = PASS_WATCH_ON.load(std::sync::atomic::Ordering::Relaxed) && DEEPEST_PASS_STARTED.with(|c| c.get()).map_or(false, |d| d >= 1);
                    if next_pass_started && !legal.is_empty() {
                        d.push(Divergence::new(
                            "search-returns-no-move-although-a-later-pass-had-started",
                            format!("{fen} expiry at poll {k}: the engine logged the start of the pass for depth {:?} (so the first pass was over), {} legal moves, returned None", DEEPEST_PASS_STARTED.with(|c| c.get()), legal.len()),
                        ));
                    } else if o.polls <= k && !legal.is_empty() && rp.half < 100 {
                        // the limit never reported expiry, so nothing can have cut the first pass short
                        // (a root with 100 half-moves on the clock may be adjudicated without a pass)
                        d.push(Divergence::new(
                            "search-gives-up-without-a-move-before-the-limit-expired",
                            format!("{fen} k={k}: the search ended by itself after {} polls (limit not expired), {} legal moves, returned None", o.polls, legal.len()),
                        ));
                    } else if o.max_depth != SENTINEL && !legal.is_empty() {
                        d.push(Divergence::new(
                            "search-returns-no-move-although-a-pass-completed",
                            format!("{fen} expiry at poll {k}: pass {} completed, {} legal moves, returned None", o.max_depth, legal.len()),
                        ));
                    }
                }
            }
            (Some(o), d)
        }
    }
}

/// every k from 0 until three passes have completed, the search ends by itself, or the cap
pub fn c11_sweep(rp: &Position, cap: u64, positional: bool, want_passes: u16) -> (u64, u64, bool, Vec<(u64, Vec<Divergence>)>) {
    let fen = rp.to_fen();
    let Ok(board) = parse_board(&fen) else { return (0, 0, false, vec![]) };
    let legal = rp.legal_moves();
    let mut out = vec![];
    let mut runs = 0;
    let mut k = 0;
    let mut completed_a_pass = false;
    loop {
        let (o, d) = c11_case(rp, &board, &legal, k, positional);
        runs += 1;
        if !d.is_empty() {
            out.push((k, d));
        }
        let Some(o) = o else { break };
        if o.max_depth != SENTINEL {
            completed_a_pass = true;
        }
        // the search ended by itself before the timeout fired: larger k cannot differ
        if o.polls <= k {
            break;
        }
        if o.max_depth != SENTINEL && o.max_depth + 1 >= want_passes {
            break;
        }
        if k >= cap {
            break;
        }
        k += 1;
    }
    (runs, k, completed_a_pass, out)
}

pub fn search_positions(tier: Tier) -> Vec<Position> {
    let mut v: Vec<Position> = vec![];
    // E1 states of depth <= 2 from the quiet roots (reference-only BFS)
    let quiet = [START_FEN, "r3k2r/8/8/8/8/8/8/R3K2R w KQkq - 0 1", "8/2p5/3p4/KP5r/1R3p1k/8/4P1P1/8 w - - 0 1", "4k3/pppppppp/8/8/8/8/PPPPPPPP/4K3 w - - 0 1"];
    for (i, f) in quiet.iter().enumerate() {
        let root = Position::from_fen(f).unwrap();
        let depth = if i == 0 { 2 } else if tier == Tier::Quick { 1 } else { 2 };
        let mut frontier = vec![root];
        for _ in 0..=depth {
            let mut next = vec![];
            for p in &frontier {
                v.push(p.clone());
                for m in p.legal_moves() {
                    next.push(p.make(m));
                }
            }
            frontier = next;
        }
    }
    // scenario and perft roots (terminals, mates, stalemates, promotions, ep)
    let (roots, _) = all_roots();
    for r in roots {
        v.push(r.pos);
    }
    // F-3 with a stride
    let stride = tier.pick(500, 32);
    for (i, p) in family_positions(Family::Three, 0).into_iter().enumerate() {
        if i % stride == 0 {
            for q in [p.clone(), p.mirror()] {
                if q.valid_root().is_ok() {
                    v.push(q);
                }
            }
        }
    }
    // forced-move roots: exactly one (or two) legal moves - every pass consists of the
    // previous-best probe alone, so expiry lands inside it
    {
        let mut forced = vec![];
        for (i, p) in family_positions(Family::Three, 0).into_iter().enumerate() {
            for q in [p.clone(), p.mirror()] {
                if q.valid_root().is_ok() {
                    let n = q.legal_moves().len();
                    if n == 1 || (n == 2 && i % 5 == 0) {
                        forced.push(q);
                    }
                }
            }
        }
        let stride = (forced.len() / tier.pick(250, 2500)).max(1);
        v.extend(forced.into_iter().step_by(stride));
        for f in [
            "4k3/pppp4/8/8/8/8/PPPP1nPP/R6K w - - 0 1",
            "r1bqkbnr/pppppBpp/8/8/1n2P3/8/PPPP1PPP/RNBQK1NR b KQkq - 0 3",
            "rnb1kbnr/pp1p1ppp/1pp1p3/8/5P1q/2N5/P1PPP1PP/R1BQKBNR w KQkq - 1 5",
            "6k1/5ppp/8/8/8/8/r7/6K1 w - - 0 1",
        ] {
            let p = Position::from_fen(f).unwrap();
            v.push(p.mirror());
            v.push(p);
        }
    }
    // every legal move is answered by a capture that gives check and can only be met by a quiet
    // king move (the capture extension at the horizon then looks at an empty capture list of a side
    // that is in check)
    v.extend(capture_check_reply_family(tier.pick(7, 1)));
    // one ply before the end of a lost game: every legal move allows a mate in one
    {
        let mut lost = vec![];
        for p in kxk_family(refchess::Pc::Q, false) {
            if p.turn == Col::B {
                let l = p.legal_moves();
                if !l.is_empty() && l.iter().all(|m| !p.make(*m).mating_moves().is_empty()) {
                    lost.push(p);
                }
            }
        }
        let stride = (lost.len() / tier.pick(120, 1200)).max(1);
        for p in lost.into_iter().step_by(stride) {
            v.push(p.mirror());
            v.push(p);
        }
        for f in ["6q1/8/8/8/8/8/2k4P/K7 w - - 0 1", "6k1/8/4b3/q7/8/3B4/PPn5/KR1Q4 w - - 0 1", "7r/2k3P1/8/1p6/P7/8/8/6K1 w - - 0 1"] {
            let p = Position::from_fen(f).unwrap();
            v.push(p.mirror());
            v.push(p);
        }
    }
    // degenerate roots
    for f in ["7k/5Q2/6K1/8/8/8/8/8 b - - 0 1", "7k/6Q1/6K1/8/8/8/8/8 b - - 0 1", "4k3/8/8/8/8/8/8/4K2R w K - 99 60", "4k3/8/8/8/8/8/8/4K2R w K - 100 60", "k7/8/8/8/8/8/8/K7 w - - 0 1"] {
        let p = Position::from_fen(f).unwrap();
        v.push(p.mirror());
        v.push(p);
    }
    let mut seen = std::collections::BTreeSet::new();
    v.retain(|p| seen.insert(p.to_fen()) && parse_board(&p.to_fen()).is_ok());
    v
}

/// White king boxed in a corner by its own pawn, a white rook, a black queen on the first rank
/// giving check with a black rook behind it, black king far away: kept when the reference says
/// that EVERY legal move of the root is a capture after which some reply is a capture giving check
/// that the checked side can answer only with non-capturing moves.  Both colours.
pub fn capture_check_reply_family(stride: usize) -> Vec<Position> {
    use refchess::Pc;
    let mut raw = vec![];
    let mut i = 0usize;
    for (wk, wp) in [(7u8, 15u8), (0u8, 8u8)] {
        for bq in 0..8u8 {
            for wr in 0..64u8 {
                for br in 0..64u8 {
                    for bk in [62u8, 57, 46, 41] {
                        i += 1;
                        if i % stride != 0 {
                            continue;
                        }
                        let mut p = Position::empty();
                        p.turn = Col::W;
                        p.full = 1;
                        let men = [(wk, Col::W, Pc::K), (wp, Col::W, Pc::P), (bq, Col::B, Pc::Q), (wr, Col::W, Pc::R), (br, Col::B, Pc::R), (bk, Col::B, Pc::K)];
                        let mut ok = true;
                        for (s, c, pc) in men {
                            if p.board[s as usize].is_some() {
                                ok = false;
                                break;
                            }
                            p.board[s as usize] = Some((c, pc));
                        }
                        if ok {
                            raw.push(p);
                        }
                    }
                }
            }
        }
    }
    raw.into_par_iter()
        .filter(|p| {
            if p.valid_root().is_err() {
                return false;
            }
            let l = p.legal_moves();
            !l.is_empty()
                && l.len() <= 2
                && l.iter().all(|m| {
                    p.at(m.to).is_some() && {
                        let c = p.make(*m);
                        c.legal_moves().iter().any(|r| {
                            c.at(r.to).is_some() && {
                                let cc = c.make(*r);
                                let ll = cc.legal_moves();
                                cc.in_check() && !ll.is_empty() && ll.iter().all(|x| cc.at(x.to).is_none())
                            }
                        })
                    }
                })
        })
        .flat_map_iter(|p| {
            let m = p.mirror();
            [p, m]
        })
        .filter(|p| p.valid_root().is_ok())
        .collect()
}

pub fn run_c11(args: &Args) -> i32 {
    let report = Report::new("C11", args.tier, args.seed, "fault_enumeration");
    silence_panics();
    let mut positions = search_positions(args.tier);
    let mut cap = args.tier.pick(3000u64, 12000);
    if reduced() {
        positions = positions.into_iter().step_by(4).collect();
        cap = 1000;
    }
    if std::env::var("VCHECK_TRACING").is_ok() {
        // sub-run with a tracing subscriber installed (the CLI's -v and the WASM front end do that):
        // the engine's log statements evaluate their arguments only then
        use tracing_subscriber::fmt::MakeWriter;
        struct Sink;
        impl std::io::Write for Sink {
            fn write(&mut self, b: &[u8]) -> std::io::Result<usize> {
                Ok(b.len())
            }
            fn flush(&mut self) -> std::io::Result<()> {
                Ok(())
            }
        }
        struct MkSink;
        impl<'a> MakeWriter<'a> for MkSink {
            type Writer = Sink;
            fn make_writer(&'a self) -> Sink {
                Sink
            }
        }
        use tracing_subscriber::layer::SubscriberExt;
        let _ = tracing::subscriber::set_global_default(
            tracing_subscriber::registry()
                .with(if std::env::var("VCHECK_TRACING").as_deref() == Ok("trace") { tracing_subscriber::filter::LevelFilter::TRACE } else { tracing_subscriber::filter::LevelFilter::DEBUG })
                .with(PassWatcher)
                .with(tracing_subscriber::fmt::layer().with_writer(MkSink)),
        );
        PASS_WATCH_ON.store(true, std::sync::atomic::Ordering::Relaxed);
        let keep: Vec<Position> = ["6q1/8/8/8/8/8/2k4P/K7 w - - 0 1", "6k1/8/4b3/q7/8/3B4/PPn5/KR1Q4 w - - 0 1", "7r/2k3P1/8/1p6/P7/8/8/6K1 w - - 0 1"]
            .iter()
            .flat_map(|f| {
                let p = Position::from_fen(f).unwrap();
                [p.mirror(), p]
            })
            .collect();
        if std::env::var("VCHECK_TRACING").as_deref() == Ok("trace") {
            // every node formats its arguments at this level (the CLI's -vvv): a smaller sweep
            positions = positions.into_iter().step_by(120).chain(keep).collect();
            cap = 60;
        } else {
            positions = positions.into_iter().step_by(6).chain(keep).collect();
            cap = 250;
        }
    }
    // positions with at most two legal moves have trivially cheap passes: sweep them over six passes
    let res: Vec<(u64, u64, bool, Vec<(u64, Vec<Divergence>)>)> =
        positions.par_iter().map(|p| if p.legal_moves().len() <= 2 { c11_sweep(p, cap.min(500), false, 8) } else { c11_sweep(p, cap, false, 3) }).collect();
    let mut runs = 0u64;
    let mut capped = 0u64;
    let mut no_pass = 0u64;
    let mut with_pass = 0u64;
    let mut kmax = 0u64;
    for (p, (r, k, pass, bad)) in positions.iter().zip(res.iter()) {
        runs += r;
        kmax = kmax.max(*k);
        if *k >= cap {
            capped += 1;
        }
        if *pass {
            with_pass += 1;
        } else {
            no_pass += 1;
        }
        for (k, d) in bad {
            report.record(d, || json!({"kind": "search", "fen": p.to_fen(), "k": k, "positional": false}));
        }
    }
    // the positional configuration on a subset
    let sub: Vec<&Position> = positions.iter().step_by(7).collect();
    let res2: Vec<(u64, u64, bool, Vec<(u64, Vec<Divergence>)>)> = sub.par_iter().map(|p| c11_sweep(p, cap / 2, true, 2)).collect();
    for (p, (r, _, _, bad)) in sub.iter().zip(res2.iter()) {
        runs += r;
        for (k, d) in bad {
            report.record(d, || json!({"kind": "search", "fen": p.to_fen(), "k": k, "positional": true}));
        }
    }
    // one Engine reused for unrelated positions (the CLI and the plugin keep one engine per game):
    // a completed search of position A, then position B with every expiry point
    let reuse_runs = if std::env::var("VCHECK_SUBRUN").is_err() && !reduced() { c11_engine_reuse(&positions, args.tier, &report) } else { 0 };
    runs += reuse_runs;
    // non-empty repetition histories
    let history_runs = if !reduced() { c11_with_history(args.tier, &report) } else { 0 };
    runs += history_runs;
    // through the plugin boundary
    let (plugin_runs, plugin_positions) = if std::env::var("VCHECK_SUBRUN").is_err() { crate::plugin::c11_through_plugin(&positions, args.tier, &report) } else { (0, 0) };
    runs += plugin_runs;
    // the same sweep (reduced) in two child processes that have a tracing subscriber installed (DEBUG level; TRACE level on a smaller subset)
    let mut logging_runs = 0u64;
    if std::env::var("VCHECK_SUBRUN").is_err() && !is_worker() {
      for level in ["debug", "trace"] {
        let exe = std::env::current_exe().unwrap_or_else(|e| machinery_failure(&format!("current_exe: {e}")));
        let out = std::process::Command::new(exe)
            .args(["C11", "--tier", "quick"])
            .env("VCHECK_SUBRUN", "1")
            .env("VCHECK_TRACING", level)
            .output()
            .unwrap_or_else(|e| machinery_failure(&format!("cannot start the logging sub-run: {e}")));
        let text = String::from_utf8_lossy(&out.stdout);
        let mut seen_cov = false;
        for line in text.lines() {
            if let Some(rest) = line.strip_prefix("SUBRUN-DIVERGENCE\t") {
                let f: Vec<&str> = rest.splitn(3, '\t').collect();
                report.record(&[Divergence::new(format!("with-logging-enabled:{}", f[0]), f.get(2).unwrap_or(&"").to_string())], || json!({"kind": "logging-subrun"}));
            }
            if let Some(rest) = line.strip_prefix("SUBRUN-COVERAGE ") {
                seen_cov = true;
                logging_runs += serde_json::from_str::<Value>(rest).ok().and_then(|v| v["evaluations"].as_u64()).unwrap_or(0);
            }
        }
        if !seen_cov {
            // the child died: with logging enabled the search crashed the process
            report.record(
                &[Divergence::new("with-logging-enabled:search-crashes-the-process", format!("the sub-run with a tracing subscriber ({level} level) ended with status {:?} and no coverage line; stderr tail: {}", out.status.code(), String::from_utf8_lossy(&out.stderr).lines().rev().take(2).collect::<Vec<_>>().join(" | ")))],
                || json!({"kind": "logging-subrun"}),
            );
        }
      }
        runs += logging_runs;
    }
    restore_panics();
    if with_pass == 0 {
        machinery_failure("C11: no position completed a pass: the sweep is vacuous");
    }
    let si = (args.seed as usize * 17 + 5) % positions.len();
    let sample_k = 25;
    let so = search_k(&parse_board(&positions[si].to_fen()).unwrap(), sample_k, false).ok();
    report.finish(
        json!({
            "evaluations": runs,
            "distinct_nontrivial": with_pass,
            "rule": "positions = reference BFS to depth 2 from the start (depth 1-2 from three other quiet roots), every catalogue root, every 500th (thorough: 32nd) kings+1-piece position in both colours, degenerate roots, roots whose every move is a capture answered by a capture-with-check that only quiet moves can meet (boxed king, rook, enemy queen and rook; selected by the reference); for each position every expiry index k = 0, 1, 2, ... of a counting timeout until three deepening passes completed, the search ended by itself (mate), or the cap; each (position, k) is one complete search on a fresh Engine; seven roots reached by shuffles are searched with the positions played recorded in the repetition table (root occurring up to three times, successors up to twice), every k until four passes completed or the cap. Non-trivial = positions where some k lets a pass complete (so 'a pass completed => a move is returned' is exercised); the others only exercise 'no move or a legal move'.",
            "positions": positions.len(),
            "positions_where_a_pass_completed": with_pass,
            "positions_where_no_pass_completed_below_cap": no_pass,
            "positions_explored_up_to_cap_only": capped,
            "cap_k": cap, "largest_k_reached": kmax,
            "plugin_runs": plugin_runs, "plugin_positions": plugin_positions,
            "engine_reuse_runs": reuse_runs, "runs_with_a_repetition_history": history_runs, "runs_with_tracing_subscriber_installed": logging_runs,
            "exhaustive": capped == 0,
            "exhaustive_note": "every k in [0, K] where K is the first k completing 3 passes; positions counted under positions_explored_up_to_cap_only were explored for k <= cap only",
            "samples": [{"fen": positions[si].to_fen(), "k": sample_k, "returned": so.as_ref().map(|o| o.mv.map(|m| ref_mv(m).uci())), "passes_completed": so.as_ref().map(|o| if o.max_depth == SENTINEL { 0 } else { o.max_depth as u32 + 1 })}],
        }),
        &["the engine polls its timeout at fixed program points, so k ranges over every instant at which expiry can be noticed", "timeouts are monotone like a deadline (non-monotone answers are not injected)", "'a pass completed' is observed through the public Engine::max_depth field pre-loaded with a sentinel"],
    )
}

/// searches given a non-empty repetition history (the CLI and the plugin never pass an empty one):
/// `start` with `moves` played, every position on the way (the start included) recorded, the
/// final position searched at expiry point k
pub fn history_case(start: &str, moves: &[&str], k: u64) -> (Option<Outcome>, Vec<Divergence>) {
    let mut rp = Position::from_fen(start).unwrap_or_else(|e| machinery_failure(&format!("history root {start}: {e}")));
    let Ok(mut board) = parse_board(start) else { return (None, vec![]) };
    set_case(|| json!({"property": "C11", "case": {"kind": "search-with-history", "start": start, "moves": moves, "k": k}}).to_string());
    let mut boards = vec![board];
    for m in moves {
        let mv = Mv::parse(m).unwrap_or_else(|| machinery_failure(&format!("bad move {m}")));
        if !rp.legal_moves().contains(&mv) {
            machinery_failure(&format!("history {start} {moves:?}: {m} is not legal according to the reference"));
        }
        rp = rp.make(mv);
        if !board.move_mut(real_mv(mv)) {
            return (None, vec![Divergence::new("history-move-refused", format!("{start} {moves:?}: {m} refused"))]);
        }
        boards.push(board);
    }
    let legal = rp.legal_moves();
    let root_is_rule_drawn = rp.half >= 100 || {
        let mut q = Position::from_fen(start).unwrap();
        let mut n = (q.identity() == rp.identity()) as u32;
        for m in moves {
            q = q.make(Mv::parse(m).unwrap());
            n += (q.identity() == rp.identity()) as u32;
        }
        n >= 3
    };
    let r = std::panic::catch_unwind(|| {
        let mut tf = ThreeFold::new();
        for b in &boards {
            let _ = tf.add(*b);
        }
        let mut engine = Engine::default();
        engine.max_depth = SENTINEL;
        let t = CountingTimeout::new(k);
        let (mv, score) = engine.search(&board, &tf, &t);
        Outcome { mv, score, max_depth: engine.max_depth, polls: t.polls.get() }
    });
    let what = format!("{start} after {moves:?} (history of {} positions)", boards.len());
    match r {
        Err(_) => (None, vec![Divergence::new("search-panics", format!("{what} k={k}"))]),
        Ok(o) => {
            let mut d = vec![];
            match o.mv {
                Some(m) if !legal.contains(&ref_mv(m)) => d.push(Divergence::new("search-returns-illegal-move", format!("{what} expiry at poll {k}: returned {}", ref_mv(m).uci()))),
                // a root that the rules already call drawn (third occurrence in the supplied history, or 100
                // half-moves) may be adjudicated without running a pass: 'ended by itself' then proves nothing
                None if !legal.is_empty() && (o.max_depth != SENTINEL || (o.polls <= k && !root_is_rule_drawn)) => d.push(Divergence::new("search-returns-no-move-although-a-pass-completed", format!("{what} expiry at poll {k}: pass {} completed (or the search ended by itself), {} legal moves, returned None", o.max_depth, legal.len()))),
                _ => {}
            }
            (Some(o), d)
        }
    }
}

const HISTORY_ROOTS: &[(&str, &[&str])] = &[
    // two knight-shuffle cycles from the start: the root has occurred three times, its successors twice
    (START_FEN, &["g1f3", "g8f6", "f3g1", "f6g8", "g1f3", "g8f6", "f3g1", "f6g8"]),
    // one and a half cycles: the root is a mid-cycle position, one reply repeats, the others do not
    (START_FEN, &["g1f3", "g8f6", "f3g1", "f6g8", "g1f3", "g8f6"]),
    (START_FEN, &["b1c3", "b8c6", "c3b1", "c6b8", "b1c3"]),
    // bare knights: every line shuffles, many successors are in the table
    ("1n2k3/8/8/8/8/8/8/1N2K3 w - - 0 1", &["b1c3", "b8c6", "c3b1", "c6b8", "b1c3", "b8c6", "c3b1", "c6b8"]),
    ("1n2k3/8/8/8/8/8/8/1N2K3 w - - 0 1", &["b1a3", "b8a6", "a3b1", "a6b8", "b1a3", "b8a6", "a3b1"]),
    // a capture is available at the root whose successor cannot have occurred; the quiet alternatives repeat
    ("4k3/8/8/3p4/4P3/8/8/4K3 w - - 0 1", &["e1d1", "e8d8", "d1e1", "d8e8", "e1d1", "e8d8", "d1e1", "d8e8"]),
    // rook endgame with a mate available after the shuffle
    ("7k/8/5K2/8/8/8/8/R7 w - - 0 1", &["a1b1", "h8g8", "b1a1", "g8h8", "a1b1", "h8g8", "b1a1", "g8h8"]),
];

fn c11_with_history(tier: Tier, report: &Report) -> u64 {
    let cap = tier.pick(600u64, 12_000);
    let res: Vec<(u64, Vec<(u64, Vec<Divergence>)>)> = HISTORY_ROOTS
        .par_iter()
        .map(|(start, moves)| {
            let mut bad = vec![];
            let mut runs = 0;
            let mut k = 0;
            loop {
                let (o, d) = history_case(start, moves, k);
                runs += 1;
                if !d.is_empty() {
                    bad.push((k, d));
                }
                let Some(o) = o else { break };
                if o.polls <= k || (o.max_depth != SENTINEL && o.max_depth >= 3) || k >= cap {
                    break;
                }
                k += 1;
            }
            (runs, bad)
        })
        .collect();
    let mut runs = 0;
    for ((start, moves), (r, bad)) in HISTORY_ROOTS.iter().zip(res) {
        runs += r;
        for (k, d) in bad {
            report.record(&d, || json!({"kind": "search-with-history", "start": start, "moves": moves, "k": k}));
        }
    }
    runs
}

pub fn reuse_case(a: &Position, b: &Position, k: u64) -> Vec<Divergence> {
    let (Ok(ba), Ok(bb)) = (parse_board(&a.to_fen()), parse_board(&b.to_fen())) else { return vec![] };
    let legal_b = b.legal_moves();
    let r = std::panic::catch_unwind(|| {
        let mut engine = Engine::default();
        let tf = ThreeFold::new();
        let t1 = CountingTimeout::new(4000);
        let _ = engine.search(&ba, &tf, &t1);
        engine.max_depth = SENTINEL;
        let t2 = CountingTimeout::new(k);
        let (mv, _) = engine.search(&bb, &tf, &t2);
        (mv, engine.max_depth, t2.polls.get())
    });
    match r {
        Err(_) => vec![Divergence::new("search-panics:engine-reused", format!("{} then {} k={k}", a.to_fen(), b.to_fen()))],
        Ok((mv, depth, polls)) => {
            if let Some(m) = mv {
                if !legal_b.contains(&ref_mv(m)) {
                    return vec![Divergence::new("search-returns-illegal-move:engine-reused", format!("engine searched {} and then {} with expiry at poll {k}: returned {} which is not legal there", a.to_fen(), b.to_fen(), ref_mv(m).uci()))];
                }
            } else if !legal_b.is_empty() && (depth != SENTINEL || (polls <= k && b.half < 100)) {
                return vec![Divergence::new("search-returns-no-move:engine-reused", format!("{} then {} k={k}", a.to_fen(), b.to_fen()))];
            }
            vec![]
        }
    }
}

/// search A to completion of its first pass, then B with every expiry point k, on ONE engine
fn c11_engine_reuse(positions: &[Position], tier: Tier, report: &Report) -> u64 {
    // pairs: neighbours in the catalogue, plus pairs that share the square of a movable piece
    let n = positions.len();
    let stride = (n / tier.pick(120, 600)).max(1);
    let mut pairs: Vec<(usize, usize)> = (0..n).step_by(stride).map(|i| (i, (i + 1) % n)).collect();
    for f in [("6k1/5ppp/8/8/8/8/8/R3K3 w - - 0 1", "6k1/5ppp/8/8/8/8/P7/R3K3 w - - 0 1"), ("6k1/5ppp/8/8/8/8/8/3QK3 w - - 0 1", "6k1/5ppp/3p4/8/8/8/8/3QK3 w - - 0 1")] {
        let _ = f;
    }
    let extra = [
        ("6k1/5ppp/8/8/8/8/8/R3K3 w - - 0 1", "6k1/5ppp/8/8/8/8/P7/R3K3 w - - 0 1"),
        ("6k1/5ppp/8/8/8/8/8/3QK3 w - - 0 1", "6k1/5ppp/3p4/8/3P4/8/8/3QK3 w - - 0 1"),
        ("4k3/8/8/8/8/8/4P3/4K3 w - - 0 1", "4k3/8/8/8/8/4p3/4P3/4K3 w - - 0 1"),
    ];
    let mut all: Vec<(Position, Position)> = pairs.drain(..).map(|(a, b)| (positions[a].clone(), positions[b].clone())).collect();
    for (a, b) in extra {
        let (pa, pb) = (Position::from_fen(a).unwrap(), Position::from_fen(b).unwrap());
        all.push((pa.mirror(), pb.mirror()));
        all.push((pa, pb));
    }
    let cap = tier.pick(120u64, 600);
    let res: Vec<(u64, Vec<(u64, Vec<Divergence>)>)> = all
        .par_iter()
        .map(|(a, b)| {
            let mut bad = vec![];
            let mut runs = 0;
            for k in 0..=cap {
                runs += 1;
                let d = reuse_case(a, b, k);
                if !d.is_empty() {
                    bad.push((k, d));
                }
            }
            (runs, bad)
        })
        .collect();
    let mut runs = 0;
    for ((a, b), (r, bad)) in all.iter().zip(res) {
        runs += r;
        for (k, d) in bad {
            report.record(&d, || json!({"kind": "search-reuse", "first": a.to_fen(), "fen": b.to_fen(), "k": k}));
        }
    }
    runs
}

// ------------------------------------------------------------------------------ C12

fn mover_mate_in_one(turn: Col) -> Score {
    match turn {
        Col::W => Score::WhiteMateIn(1),
        Col::B => Score::BlackMateIn(1),
    }
}

/// smallest k = 32 * 2^i that lets pass 0 complete (or the search end by itself)
pub fn first_pass(board: &Board, positional: bool, max_k: u64) -> Result<Option<Outcome>, String> {
    let mut k = 32;
    loop {
        let o = search_k(board, k, positional)?;
        if o.max_depth != SENTINEL || o.polls <= k {
            return Ok(Some(o));
        }
        if k >= max_k {
            return Ok(None);
        }
        k *= 2;
    }
}

pub fn c12_case(rp: &Position, positional: bool) -> (bool, bool, Vec<Divergence>) {
    let fen = rp.to_fen();
    let Ok(board) = parse_board(&fen) else { return (false, false, vec![]) };
    let mates = rp.mating_moves();
    let mut d = vec![];
    let want = mover_mate_in_one(rp.turn);
    match first_pass(&board, positional, 1 << 22) {
        Err(msg) => d.push(Divergence::new("search-panics", format!("{fen}: {msg}"))),
        Ok(None) => return (!mates.is_empty(), false, d),
        Ok(Some(o)) => {
            // `first_pass` only returns when a pass was committed or the search ended by itself (the
            // limit never expired): either way the first pass is over
            let completed = true;
            let got_mv = o.mv.map(ref_mv);
            if completed && !mates.is_empty() {
                match got_mv {
                    Some(m) if mates.contains(&m) => {
                        if o.score != want {
                            d.push(Divergence::new("mate-in-one-played-but-score-wrong", format!("{fen}: plays {} (mate) but reports {}", m.uci(), score_name(o.score))));
                        }
                    }
                    other => d.push(Divergence::new(
                        "mate-in-one-missed",
                        format!("{fen}: mating moves [{}], search returned {:?} with {}", moves_str(&mates), other.map(|m| m.uci()), score_name(o.score)),
                    )),
                }
            }
            if o.score == want {
                match got_mv {
                    Some(m) if mates.contains(&m) => {}
                    other => d.push(Divergence::new(
                        "mate-in-one-reported-but-move-does-not-mate",
                        format!("{fen}: reports {} with move {:?}, mating moves are [{}]", score_name(o.score), other.map(|m| m.uci()), moves_str(&mates)),
                    )),
                }
            }
            return (!mates.is_empty(), completed, d);
        }
    }
    (!mates.is_empty(), false, d)
}

/// the same two implications at later expiry points: whatever number of passes has completed, a
/// mate-in-one score comes with a mating move, and an available mate in one is what is returned
pub fn c12_deeper(rp: &Position, positional: bool, ks: &[u64]) -> (u64, Vec<Divergence>) {
    let fen = rp.to_fen();
    let Ok(board) = parse_board(&fen) else { return (0, vec![]) };
    let mates = rp.mating_moves();
    let want = mover_mate_in_one(rp.turn);
    let mut d = vec![];
    let mut n = 0;
    for &k in ks {
        let o = match search_k(&board, k, positional) {
            Ok(o) => o,
            Err(msg) => {
                d.push(Divergence::new("search-panics", format!("{fen}: {msg}")));
                break;
            }
        };
        n += 1;
        let got_mv = o.mv.map(ref_mv);
        let completed = o.max_depth != SENTINEL || (o.polls <= k && rp.half < 100);
        if o.score == want && !got_mv.map_or(false, |m| mates.contains(&m)) {
            d.push(Divergence::new(
                "mate-in-one-reported-but-move-does-not-mate",
                format!("{fen}: at k={k} (depth {}) reports {} with move {:?}, mating moves are [{}]", o.max_depth, score_name(o.score), got_mv.map(|m| m.uci()), moves_str(&mates)),
            ));
        }
        if completed && !mates.is_empty() && !(got_mv.map_or(false, |m| mates.contains(&m)) && o.score == want) {
            d.push(Divergence::new(
                "mate-in-one-missed",
                format!("{fen}: at k={k} (depth {}) mating moves [{}], search returned {:?} with {}", o.max_depth, moves_str(&mates), got_mv.map(|m| m.uci()), score_name(o.score)),
            ));
        }
        if o.polls <= k {
            break;
        }
    }
    (n, d)
}

fn kxk_family(piece: refchess::Pc, pawn_seventh_only: bool) -> Vec<Position> {
    use refchess::Pc;
    let mut out = vec![];
    for wk in 0..64u8 {
        for bk in 0..64u8 {
            for x in 0..64u8 {
                if wk == bk || wk == x || bk == x {
                    continue;
                }
                if piece == Pc::P && pawn_seventh_only && x / 8 != 6 {
                    continue;
                }
                for turn in [Col::W, Col::B] {
                    let mut p = Position::empty();
                    p.turn = turn;
                    p.full = 1;
                    p.board[wk as usize] = Some((Col::W, Pc::K));
                    p.board[bk as usize] = Some((Col::B, Pc::K));
                    p.board[x as usize] = Some((Col::W, piece));
                    if p.valid_root().is_ok() {
                        out.push(p);
                    }
                }
            }
        }
    }
    out
}

/// K+Q v K + one black N/R that the queen may be able to capture: the mating move competes with
/// captures, which the engine iterates first under a mask
fn kqk_victim_family(stride: usize) -> Vec<Position> {
    use refchess::Pc;
    let mut out = vec![];
    let mut i = 0usize;
    for wk in 0..64u8 {
        for bk in 0..64u8 {
            let (df, dr) = ((wk % 8) as i8 - (bk % 8) as i8, (wk / 8) as i8 - (bk / 8) as i8);
            if wk == bk || (df.abs() <= 1 && dr.abs() <= 1) {
                continue;
            }
            for q in 0..64u8 {
                if q == wk || q == bk {
                    continue;
                }
                for v in 0..64u8 {
                    if v == wk || v == bk || v == q {
                        continue;
                    }
                    for piece in [Pc::N, Pc::R] {
                        i += 1;
                        if i % stride != 0 {
                            continue;
                        }
                        let mut p = Position::empty();
                        p.turn = Col::W;
                        p.full = 1;
                        p.board[wk as usize] = Some((Col::W, Pc::K));
                        p.board[bk as usize] = Some((Col::B, Pc::K));
                        p.board[q as usize] = Some((Col::W, Pc::Q));
                        p.board[v as usize] = Some((Col::B, piece));
                        if p.valid_root().is_ok() {
                            out.push(p);
                        }
                    }
                }
            }
        }
    }
    out
}

/// pawn on the 7th with a capturable black piece beside the promotion square: push-promotion and
/// capture-promotion mates compete inside one move-list entry
fn promo_mate_family() -> Vec<Position> {
    use refchess::Pc;
    let mut out = vec![];
    for f in 0..8i8 {
        for d in [-1i8, 1] {
            if !(0..8).contains(&(f + d)) {
                continue;
            }
            for victim in [Pc::N, Pc::R, Pc::B] {
                for wk in 0..64u8 {
                    for bk in 0..64u8 {
                        let mut p = Position::empty();
                        p.turn = Col::W;
                        p.full = 1;
                        p.board[refchess::sq(f, 6) as usize] = Some((Col::W, Pc::P));
                        p.board[refchess::sq(f + d, 7) as usize] = Some((Col::B, victim));
                        if p.board[wk as usize].is_some() || p.board[bk as usize].is_some() || wk == bk {
                            continue;
                        }
                        p.board[wk as usize] = Some((Col::W, Pc::K));
                        p.board[bk as usize] = Some((Col::B, Pc::K));
                        if p.valid_root().is_ok() {
                            out.push(p);
                        }
                    }
                }
            }
        }
    }
    out
}

/// Mates delivered BY A CAPTURE that leaves only kings and minor pieces (the engine's
/// insufficient-material shortcut runs after a capture and before mate detection): black king in
/// the a8/h8 corner region, one black minor piece next to it, white king within distance 2, a white
/// bishop or knight anywhere, a black pawn or minor piece anywhere as the victim.  Only members with
/// a mate in one (reference) are kept.
fn minor_capture_mate_family(stride: usize) -> Vec<Position> {
    use refchess::Pc;
    let corners: [u8; 6] = [56, 57, 48, 63, 62, 55];
    let mut raw: Vec<Position> = vec![];
    let mut i = 0usize;
    for &bk in &corners {
        let (bf, br) = ((bk % 8) as i8, (bk / 8) as i8);
        for wk in 0..64u8 {
            let (wf, wr) = ((wk % 8) as i8, (wk / 8) as i8);
            let dist = (wf - bf).abs().max((wr - br).abs());
            if !(2..=2).contains(&dist) {
                continue;
            }
            for blocker_sq in 0..64u8 {
                let (xf, xr) = ((blocker_sq % 8) as i8, (blocker_sq / 8) as i8);
                if (xf - bf).abs().max((xr - br).abs()) != 1 || blocker_sq == wk {
                    continue;
                }
                for blocker in [Pc::B, Pc::N] {
                    for attacker in [Pc::B, Pc::N] {
                        for a_sq in 0..64u8 {
                            for v_sq in 0..64u8 {
                                for victim in [Pc::P, Pc::N] {
                                    if victim == Pc::P && (v_sq < 8 || v_sq >= 56) {
                                        continue;
                                    }
                                    i += 1;
                                    if i % stride != 0 {
                                        continue;
                                    }
                                    let mut p = Position::empty();
                                    p.turn = Col::W;
                                    p.full = 1;
                                    let mut ok = true;
                                    for (s, c, pc) in [(bk, Col::B, Pc::K), (wk, Col::W, Pc::K), (blocker_sq, Col::B, blocker), (a_sq, Col::W, attacker), (v_sq, Col::B, victim)] {
                                        if p.board[s as usize].is_some() {
                                            ok = false;
                                            break;
                                        }
                                        p.board[s as usize] = Some((c, pc));
                                    }
                                    if ok {
                                        raw.push(p);
                                    }
                                }
                            }
                        }
                    }
                }
            }
        }
    }
    raw.into_par_iter()
        .filter(|p| p.valid_root().is_ok() && p.mating_moves().iter().any(|m| p.board[m.to as usize].is_some()))
        .collect()
}

/// Mates by promotion, in particular under-promotion: pawn on the 7th, black king within distance 2
/// of the promotion square, two black men from {pawn, bishop, rook, knight} next to the black king,
/// white king within distance 3.  Only members whose every mating move is a promotion are kept.
fn promotion_only_mate_family(stride: usize) -> Vec<Position> {
    use refchess::Pc;
    let mut raw: Vec<Position> = vec![];
    let mut i = 0usize;
    for f in 0..8i8 {
        let promo = refchess::sq(f, 7);
        for bk in 0..64u8 {
            let (bf, br) = ((bk % 8) as i8, (bk / 8) as i8);
            if (bf - f).abs().max(7 - br) > 2 || bk == promo || br < 6 {
                continue;
            }
            let adj: Vec<u8> = (0..64u8).filter(|s| { let (xf, xr) = ((*s % 8) as i8, (*s / 8) as i8); (xf - bf).abs().max((xr - br).abs()) == 1 && *s != refchess::sq(f, 6) }).collect();
            for (ai, &a) in adj.iter().enumerate() {
                for &b in adj.iter().skip(ai + 1) {
                    for pa in [Pc::P, Pc::B, Pc::R, Pc::N] {
                        for pb in [Pc::P, Pc::B, Pc::R, Pc::N] {
                            for wk in 0..64u8 {
                                let (wf, wr) = ((wk % 8) as i8, (wk / 8) as i8);
                                if (wf - bf).abs().max((wr - br).abs()) > 3 {
                                    continue;
                                }
                                i += 1;
                                if i % stride != 0 {
                                    continue;
                                }
                                let mut p = Position::empty();
                                p.turn = Col::W;
                                p.full = 1;
                                let mut ok = true;
                                for (s, c, pc) in [(refchess::sq(f, 6), Col::W, Pc::P), (bk, Col::B, Pc::K), (wk, Col::W, Pc::K), (a, Col::B, pa), (b, Col::B, pb)] {
                                    if p.board[s as usize].is_some() || (pc == Pc::P && c == Col::B && (s / 8 == 7 || s / 8 == 0)) {
                                        ok = false;
                                        break;
                                    }
                                    p.board[s as usize] = Some((c, pc));
                                }
                                if ok {
                                    raw.push(p);
                                }
                            }
                        }
                    }
                }
            }
        }
    }
    raw.into_par_iter()
        .filter(|p| {
            if p.valid_root().is_err() {
                return false;
            }
            let m = p.mating_moves();
            !m.is_empty() && m.iter().all(|x| x.promo.is_some())
        })
        .collect()
}

/// Knight under-promotion mates: pawn on the 7th, black king on a square a knight on the promotion
/// square would attack, two black men beside the king, one white helper (B/N/R) anywhere, white king
/// parked in a far corner.  Kept when a knight promotion mates and the queen promotion to the same
/// square does not.
fn knight_promotion_mate_family(stride: usize) -> Vec<Position> {
    use refchess::Pc;
    let mut raw: Vec<Position> = vec![];
    let mut i = 0usize;
    for f in 0..8i8 {
        for to_f in [f - 1, f, f + 1] {
            if !(0..8).contains(&to_f) {
                continue;
            }
            // squares a knight on (to_f, 7) attacks
            for (df, dr) in [(1i8, -2i8), (-1, -2), (2, -1), (-2, -1)] {
                let (bf, br) = (to_f + df, 7 + dr);
                if !(0..8).contains(&bf) {
                    continue;
                }
                let bk = refchess::sq(bf, br);
                let adj: Vec<u8> = (0..64u8).filter(|s| { let (xf, xr) = ((*s % 8) as i8, (*s / 8) as i8); (xf - bf).abs().max((xr - br).abs()) == 1 && *s != refchess::sq(f, 6) }).collect();
                for (ai, &a) in adj.iter().enumerate() {
                    for &b in adj.iter().skip(ai + 1) {
                        for pa in [Pc::P, Pc::B, Pc::R, Pc::N] {
                            for pb in [Pc::P, Pc::B, Pc::R, Pc::N] {
                                for helper in [Pc::B, Pc::N, Pc::R] {
                                    for h in 0..64u8 {
                                        i += 1;
                                        if i % stride != 0 {
                                            continue;
                                        }
                                        let wk = if f <= 3 { 7u8 } else { 0u8 };
                                        let mut p = Position::empty();
                                        p.turn = Col::W;
                                        p.full = 1;
                                        let mut ok = true;
                                        let mut men = vec![(refchess::sq(f, 6), Col::W, Pc::P), (bk, Col::B, Pc::K), (wk, Col::W, Pc::K), (a, Col::B, pa), (b, Col::B, pb), (h, Col::W, helper)];
                                        // a capture-promotion needs a victim on the promotion square
                                        if to_f != f {
                                            men.push((refchess::sq(to_f, 7), Col::B, Pc::R));
                                        }
                                        for (s, c, pc) in men {
                                            if p.board[s as usize].is_some() || (pc == Pc::P && c == Col::B && (s / 8 == 7 || s / 8 == 0)) {
                                                ok = false;
                                                break;
                                            }
                                            p.board[s as usize] = Some((c, pc));
                                        }
                                        if ok {
                                            raw.push(p);
                                        }
                                    }
                                }
                            }
                        }
                    }
                }
            }
        }
    }
    raw.into_par_iter()
        .filter(|p| {
            if p.valid_root().is_err() {
                return false;
            }
            let m = p.mating_moves();
            m.iter().any(|x| x.promo == Some(Pc::N) && !m.contains(&Mv::new(x.from, x.to, Some(Pc::Q))))
        })
        .collect()
}

/// The mover is in check, has exactly ONE legal move, and that move mates: K+Q v K+Q/R with
/// every placement, selected by the reference.
#[allow(dead_code)]
fn forced_single_move_mate_family(stride: usize) -> Vec<Position> {
    use refchess::Pc;
    let mut raw = vec![];
    let mut i = 0usize;
    for wk in 0..64u8 {
        for bk in 0..64u8 {
            let (df, dr) = ((wk % 8) as i8 - (bk % 8) as i8, (wk / 8) as i8 - (bk / 8) as i8);
            if wk == bk || (df.abs() <= 1 && dr.abs() <= 1) {
                continue;
            }
            for wq in 0..64u8 {
                for bx in 0..64u8 {
                    if [wk, bk].contains(&wq) || [wk, bk, wq].contains(&bx) {
                        continue;
                    }
                    for (piece, mine) in [(Pc::Q, Pc::Q), (Pc::R, Pc::Q), (Pc::B, Pc::Q), (Pc::N, Pc::Q), (Pc::Q, Pc::R), (Pc::R, Pc::R), (Pc::B, Pc::R), (Pc::N, Pc::R), (Pc::P, Pc::Q), (Pc::P, Pc::R)] {
                        i += 1;
                        if i % stride != 0 {
                            continue;
                        }
                        if piece == Pc::P && (bx < 8 || bx >= 56) {
                            continue;
                        }
                        let mut p = Position::empty();
                        p.turn = Col::W;
                        p.full = 1;
                        p.board[wk as usize] = Some((Col::W, Pc::K));
                        p.board[bk as usize] = Some((Col::B, Pc::K));
                        p.board[wq as usize] = Some((Col::W, mine));
                        p.board[bx as usize] = Some((Col::B, piece));
                        // cheap pre-filter: the white king must be attacked
                        if p.attacked(wk, Col::B) {
                            raw.push(p);
                        }
                    }
                }
            }
        }
    }
    raw.into_par_iter()
        .filter(|p| {
            if p.valid_root().is_err() {
                return false;
            }
            let l = p.legal_moves();
            l.len() == 1 && p.mating_moves().len() == 1
        })
        .collect()
}

/// Double pawn pushes that give check where an en-passant capture is a defence (so the push is NOT
/// mate although every other reply is impossible), and en-passant captures that mate: members of
/// the en-passant families selected by the reference.
fn en_passant_mate_edge_family(level: u8) -> Vec<Position> {
    let mut out: Vec<Position> = vec![];
    // (a) before the push: some double push gives check, the opponent's only legal replies are ep captures
    let pre: Vec<Position> = family_positions(Family::EpPlayed, level)
        .into_par_iter()
        .flat_map_iter(|b| [b.clone(), b.mirror()])
        .filter(|p| {
            if p.valid_root().is_err() {
                return false;
            }
            p.legal_moves().iter().any(|m| {
                if p.at(m.from).map(|x| x.1) != Some(refchess::Pc::P) || (refchess::rank_of(m.from) - refchess::rank_of(m.to)).abs() != 2 {
                    return false;
                }
                let c = p.make(*m);
                if !c.in_check() {
                    return false;
                }
                let replies = c.legal_moves();
                !replies.is_empty() && replies.iter().all(|r| c.at(r.from).map(|x| x.1) == Some(refchess::Pc::P) && Some(r.to) == c.ep_square())
            })
        })
        .collect();
    out.extend(pre);
    // (b) an en-passant capture is a mating move
    for fam in [Family::EpCheck, Family::Ep] {
        let m: Vec<Position> = family_positions(fam, level)
            .into_par_iter()
            .flat_map_iter(|b| [b.clone(), b.mirror()])
            .filter(|p| p.valid_root().is_ok() && p.mating_moves().iter().any(|m| p.at(m.from).map(|x| x.1) == Some(refchess::Pc::P) && Some(m.to) == p.ep_square()))
            .collect();
        out.extend(m);
    }
    out
}

/// The mover is in check with exactly ONE legal move, and that move mates: black king boxed in by
/// its own pawns on the back rank (three boxes), a white queen or rook anywhere, the white king on
/// ranks 1-3, a black queen/rook/bishop/knight anywhere (the checker).  Selected by the reference.
#[allow(dead_code)]
fn boxed_king_forced_mate_family() -> Vec<Position> {
    use refchess::Pc;
    let boxes: [(u8, [u8; 3]); 3] = [(62, [53, 54, 55]), (57, [48, 49, 50]), (63, [54, 55, 46])];
    let mut raw = vec![];
    for (bk, pawns) in boxes {
        for wk in 0..24u8 {
            for w in 0..64u8 {
                for mine in [Pc::Q, Pc::R] {
                    for x in 0..64u8 {
                        for checker in [Pc::Q, Pc::R, Pc::B, Pc::N] {
                            let mut p = Position::empty();
                            p.turn = Col::W;
                            p.full = 1;
                            let mut ok = true;
                            let mut men = vec![(bk, Col::B, Pc::K), (wk, Col::W, Pc::K), (w, Col::W, mine), (x, Col::B, checker)];
                            for q in pawns {
                                men.push((q, Col::B, Pc::P));
                            }
                            for (s, c, pc) in men {
                                if p.board[s as usize].is_some() {
                                    ok = false;
                                    break;
                                }
                                p.board[s as usize] = Some((c, pc));
                            }
                            if ok && p.attacked(wk, Col::B) {
                                raw.push(p);
                            }
                        }
                    }
                }
            }
        }
    }
    raw.into_par_iter()
        .filter(|p| p.valid_root().is_ok() && p.legal_moves().len() == 1 && p.mating_moves().len() == 1)
        .collect()
}

/// Castling is a mating move: white king e1 and rook h1 / a1 with the right, a white queen and a
/// second white officer (rook or bishop) anywhere, black king anywhere; kept when the reference
/// finds the castling move among the mating moves. Both colours.
fn castling_mate_family(stride: usize) -> Vec<Position> {
    use refchess::Pc;
    let mut raw = vec![];
    let mut i = 0usize;
    for (rook, right) in [(7u8, 0usize), (0u8, 1usize)] {
        for q in 0..64u8 {
            for extra in [None, Some(Pc::R), Some(Pc::B)] {
                for x in 0..64u8 {
                    if extra.is_none() && x != 0 {
                        continue;
                    }
                    for bk in 0..64u8 {
                        i += 1;
                        if i % stride != 0 {
                            continue;
                        }
                        let mut p = Position::empty();
                        p.turn = Col::W;
                        p.full = 1;
                        let mut men = vec![(4u8, Col::W, Pc::K), (rook, Col::W, Pc::R), (q, Col::W, Pc::Q), (bk, Col::B, Pc::K)];
                        if let Some(e) = extra {
                            men.push((x, Col::W, e));
                        }
                        let mut ok = true;
                        for (s, c, pc) in men {
                            if p.board[s as usize].is_some() {
                                ok = false;
                                break;
                            }
                            p.board[s as usize] = Some((c, pc));
                        }
                        if !ok {
                            continue;
                        }
                        p.rights[right] = true;
                        raw.push(p);
                    }
                }
            }
        }
    }
    raw.into_par_iter()
        .filter(|p| p.valid_root().is_ok() && p.mating_moves().iter().any(|m| m.from == 4 && (m.to == 6 || m.to == 2)))
        .flat_map_iter(|p| {
            let m = p.mirror();
            [p, m]
        })
        .filter(|p| p.valid_root().is_ok())
        .collect()
}

/// A two-square pawn advance is a mating move: white king anywhere on ranks 1-6, a white queen or
/// rook anywhere, a white pawn on its origin square, black king on the 4th or 5th rank; and: the
/// capture-promotion of a pinner by a pinned pawn is a mating move (`PromoPin` members plus one
/// white rook on the first rank).  Selected by the reference; both colours.
fn pawn_special_mate_family(stride: usize) -> Vec<Position> {
    use refchess::Pc;
    let mut raw = vec![];
    let mut i = 0usize;
    for pf in 0..8u8 {
        let ps = 8 + pf;
        for bk in 24..40u8 {
            for officer in [Pc::Q, Pc::R] {
                for os in 0..64u8 {
                    for wk in 0..48u8 {
                        i += 1;
                        if i % stride != 0 {
                            continue;
                        }
                        let mut p = Position::empty();
                        p.turn = Col::W;
                        p.full = 1;
                        let men = [(ps, Col::W, Pc::P), (bk, Col::B, Pc::K), (os, Col::W, officer), (wk, Col::W, Pc::K)];
                        let mut ok = true;
                        for (s, c, pc) in men {
                            if p.board[s as usize].is_some() {
                                ok = false;
                                break;
                            }
                            p.board[s as usize] = Some((c, pc));
                        }
                        if ok {
                            raw.push(p);
                        }
                    }
                }
            }
        }
    }
    let mut out: Vec<Position> = raw
        .into_par_iter()
        .filter(|p| p.valid_root().is_ok() && p.mating_moves().iter().any(|m| p.at(m.from).map(|x| x.1) == Some(Pc::P) && m.to == m.from + 16))
        .collect();
    let pins: Vec<Position> = family_positions(Family::PromoPin, 0)
        .into_par_iter()
        .flat_map_iter(|p| {
            (0..8u8).filter_map(move |rs| {
                let mut q = p.clone();
                if q.board[rs as usize].is_some() {
                    return None;
                }
                q.board[rs as usize] = Some((Col::W, Pc::R));
                Some(q)
            })
        })
        .filter(|p| p.valid_root().is_ok() && p.mating_moves().iter().any(|m| m.promo.is_some() && p.at(m.to).is_some()))
        .collect();
    eprintln!("[C12] double-push mates: {}, pinned capture-promotion mates: {}", out.len(), pins.len());
    out.extend(pins.into_iter().step_by(stride.max(1)));
    out.into_iter()
        .flat_map(|p| {
            let m = p.mirror();
            [p, m]
        })
        .filter(|p| p.valid_root().is_ok())
        .collect()
}

/// A quiet mate in one competes with a capture that starts a captures-only exchange ending in mate
/// (which the engine meets first, in its captures-first phase): black king h8 boxed by pawns g7 h7,
/// black rooks on the back rank (one on the battery file, one elsewhere), white queen in front of a
/// white rook on that file, a white knight or bishop anywhere.  Kept when the reference finds a
/// non-capturing mating move and the queen's capture of the rook is legal and does not mate.
fn exchange_versus_quiet_mate_family() -> Vec<Position> {
    use refchess::Pc;
    let mut raw = vec![];
    for file in 0..6u8 {
        for other in 0..8u8 {
            if other == file || other == 7 {
                continue;
            }
            for (qr, rr) in [(1u8, 0u8), (2, 0), (2, 1), (3, 0)] {
                for extra in [Pc::N, Pc::B] {
                    for x in 0..64u8 {
                        let mut p = Position::empty();
                        p.turn = Col::W;
                        p.full = 1;
                        let men = [
                            (63u8, Col::B, Pc::K),
                            (54, Col::B, Pc::P),
                            (55, Col::B, Pc::P),
                            (56 + file, Col::B, Pc::R),
                            (56 + other, Col::B, Pc::R),
                            (qr * 8 + file, Col::W, Pc::Q),
                            (rr * 8 + file, Col::W, Pc::R),
                            (6, Col::W, Pc::K),
                            (x, Col::W, extra),
                        ];
                        let mut ok = true;
                        for (s, c, pc) in men {
                            if p.board[s as usize].is_some() {
                                ok = false;
                                break;
                            }
                            p.board[s as usize] = Some((c, pc));
                        }
                        if ok {
                            raw.push((p, qr * 8 + file, 56 + file));
                        }
                    }
                }
            }
        }
    }
    raw.into_par_iter()
        .filter(|(p, q, r)| {
            if p.valid_root().is_err() {
                return false;
            }
            let mates = p.mating_moves();
            let cap = Mv::new(*q, *r, None);
            mates.iter().any(|m| p.at(m.to).is_none()) && !mates.contains(&cap) && p.legal_moves().contains(&cap)
        })
        .flat_map_iter(|(p, _, _)| {
            let m = p.mirror();
            [p, m]
        })
        .filter(|p| p.valid_root().is_ok())
        .collect()
}

pub fn c12_positions(tier: Tier) -> Vec<Position> {
    use refchess::Pc;
    let mut v = vec![];
    {
        let c = exchange_versus_quiet_mate_family();
        eprintln!("[C12] exchange-versus-quiet-mate family: {} positions", c.len());
        v.extend(c);
    }
    {
        let c = pawn_special_mate_family(tier.pick(1, 1));
        eprintln!("[C12] double-push / pinned-capture-promotion mate family: {} positions", c.len());
        v.extend(c);
    }
    {
        let c = castling_mate_family(tier.pick(3, 1));
        eprintln!("[C12] castling-mate family: {} positions", c.len());
        v.extend(c);
    }

    // (two exhaustive searches for "in check, one legal move, and it mates" - K+Q/R v K+any piece, and a
    // boxed black king with K+Q/R v K+3P+checker - found no member at all; see the hand-built list)
    v.extend(en_passant_mate_edge_family(tier.pick(0, 1)));
    v.extend(knight_promotion_mate_family(tier.pick(4, 1)));
    v.extend(minor_capture_mate_family(tier.pick(5, 1)));
    v.extend(promotion_only_mate_family(tier.pick(3, 1)));
    v.extend(kqk_victim_family(tier.pick(16, 2)));
    v.extend(promo_mate_family());
    let stride = tier.pick(1usize, 1);
    for (i, p) in kxk_family(Pc::Q, false).into_iter().chain(kxk_family(Pc::R, false)).chain(kxk_family(Pc::P, true)).enumerate() {
        // quick keeps every position with a mate in one (cheap to find with the reference later) by
        // striding only the *white-to-move* bulk; black-to-move members have no mate in one for Black
        if i % stride == 0 || tier == Tier::Thorough {
            v.push(p);
        }
    }
    // richer mates: scenarios + hand-built
    for s in load_scenarios() {
        v.push(Position::from_fen(&s.fen).unwrap());
    }
    for f in [
        "6k1/5ppp/8/8/8/8/8/3R2K1 w - - 0 1",
        "6rk/5Ppp/8/8/8/8/8/K7 w - - 0 1",
        "7k/5K2/8/6Pp/8/8/8/6R1 w - h6 0 1",
        "k7/2K5/8/8/8/8/8/R6R w - - 0 1",
        "5rk1/5ppp/8/8/8/8/1B6/K5RR w - - 0 1",
        "r1bqkb1r/pppp1ppp/2n2n2/4p2Q/2B1P3/8/PPPP1PPP/RNB1K1NR w KQkq - 0 1",
        "rnbqkbnr/pppp1ppp/8/4p3/6P1/5P2/PPPPP2P/RNBQKBNR b KQkq - 0 1",
        "6k1/8/6K1/8/8/8/8/7R w - - 0 1",
        "k1K5/8/8/8/8/8/8/1Q6 w - - 0 1",
        "8/8/8/8/8/5k2/5p1r/5K2 b - - 0 1",
        "3k4/3P4/3K4/8/8/8/8/7R w - - 0 1",
        // the mate is the push-promotion of a pawn that also has a capture-promotion
        "r2n2k1/4P2p/6PK/8/8/8/8/8 w - - 0 60",
        // the mate is a quiet move of a piece that also has captures; and a capture mate next to quiet moves
        "6k1/5ppp/8/8/8/8/r7/R5K1 w - - 0 1",
        "6k1/5ppp/8/8/8/2b5/8/3R2K1 w - - 0 1",
        "5rk1/5ppp/8/8/8/8/8/3Q1RK1 w - - 0 1",
        // capture-mate into a bishops-only ending; knight under-promotion as the only mate
        "kb6/8/1K6/3p4/8/1B6/8/8 w - - 0 1",
        "7b/5Ppk/7p/8/8/1B6/8/K7 w - - 0 1",
        // a double push that gives check but is not mate because of en passant; an en-passant capture that mates
        // the mover is in check, has exactly one legal move, and it mates (no exhaustive family of up to
        // five men contains such a position; the first is constructed, the other two were found in play)
        "Q3r1k1/5ppp/8/8/8/8/3P1P2/3RKR2 w - - 0 1",
        "7r/Pp6/1n2P1P1/P1p2B2/2Pr4/2P2k1p/R4q2/2B2KR1 w - - 1 57",
        "8/7p/8/1p4r1/1P4R1/2B1Pk2/1q2B3/2RNK3 b - - 1 56",
        "2B5/8/2K5/k7/p7/2P5/1P6/8 w - - 0 1",
        "3brb2/4kp2/8/1B1pPPP1/5B2/8/8/6K1 w - d6 0 1",
    ] {
        v.push(Position::from_fen(f).unwrap());
    }
    let mut out = vec![];
    let mut seen = std::collections::BTreeSet::new();
    for p in v {
        for q in [p.clone(), p.mirror()] {
            if q.valid_root().is_ok() && seen.insert(q.to_fen()) {
                out.push(q);
            }
        }
    }
    out
}

pub fn run_c12(args: &Args) -> i32 {
    let report = Report::new("C12", args.tier, args.seed, "exploration");
    silence_panics();
    let mut positions = c12_positions(args.tier);
    if reduced() {
        positions = positions.into_iter().step_by(23).collect();
    }
    let forced = positions.par_iter().filter(|p| p.legal_moves().len() == 1 && !p.mating_moves().is_empty()).count();
    eprintln!("[C12] positions whose single legal move mates: {forced}");
    let mut with_mate = 0u64;
    let mut completed = 0u64;
    let mut runs = 0u64;
    let mut sample = None;
    for positional in [false, true] {
        let res: Vec<(bool, bool, Vec<Divergence>)> = positions.par_iter().map(|p| c12_case(p, positional)).collect();
        for (p, (has_mate, done, d)) in positions.iter().zip(res.iter()) {
            runs += 1;
            if *has_mate && *done {
                with_mate += 1;
                if sample.is_none() || (with_mate == 1 + args.seed % 500) {
                    sample = Some(json!({"fen": p.to_fen(), "mating_moves": moves_str(&p.mating_moves()), "positional": positional}));
                }
            }
            completed += *done as u64;
            report.record(d, || json!({"kind": "mate", "fen": p.to_fen(), "positional": positional}));
        }
    }
    // later expiry points (several completed passes) on every `deep_stride`-th position
    let deep_stride = args.tier.pick(149usize, 31);
    let ks: &[u64] = if args.tier == Tier::Quick { &[1_500, 12_000] } else { &[1_500, 12_000, 40_000] };
    let deep: Vec<&Position> = positions.iter().step_by(deep_stride).collect();
    let res: Vec<(u64, Vec<Divergence>)> = deep.par_iter().map(|p| c12_deeper(p, false, ks)).collect();
    let mut deeper_searches = 0u64;
    for (p, (n, d)) in deep.iter().zip(res.iter()) {
        deeper_searches += n;
        report.record(d, || json!({"kind": "mate-deeper", "fen": p.to_fen(), "positional": false, "ks": ks}));
    }
    runs += deeper_searches;
    restore_panics();
    if with_mate < 100 {
        machinery_failure("C12: fewer than 100 mate-in-one positions completed a pass: vacuous");
    }
    report.finish(
        json!({
            "evaluations": runs,
            "distinct_nontrivial": with_mate,
            "rule": "all KQ-K, KR-K and KP(7th rank)-K positions with either side to move, every 16th (thorough: every 2nd) K+Q v K + black N/R position and all K+P(7th) v K + capturable piece beside the promotion square positions (mates that compete with captures, which the engine iterates first under a mask), the capture-mates that leave only kings and minor pieces (black king in a corner region, blocker, white minor, victim; every 5th quick) the promotion-only mates (pawn on the 7th, two black men beside the black king; every 3rd quick) and the knight-under-promotion mates where the queen promotion to the same square does not mate (one white helper piece anywhere; every 4th quick) selected by the reference, the en-passant edge cases (a double push gives check and en passant is the only defence; an en-passant capture mates) selected from the en-passant families, back-rank positions in which a quiet mate in one competes with a queen-takes-rook exchange that also ends in mate (boxed king, two back-rank rooks, queen + rook battery, a minor piece anywhere; selected by the reference), positions in which a two-square pawn advance mates (pawn on its origin square, queen or rook and both kings anywhere) or the capture-promotion of its pinner by a pinned pawn mates, positions in which castling is a mating move (king e1, rook with its right, queen and optionally a second officer anywhere, black king anywhere; every 3rd quick; selected by the reference), every scenario root and 22 hand-built mates (three of them: in check with a single legal move that mates) (several mating moves, under-promotion mate, en-passant mate, discovered mate, Black mating), each in both colours and with positional evaluation off and on; each is searched with the smallest k = 32*2^i that lets the first deepening pass complete; every 149th (thorough: 31st) position is also searched at the later expiry points k = 1500, 12000 (thorough: and 40000), where several passes have completed, with the same two implications. Non-trivial = (position, configuration) pairs that have a mate in one AND completed a pass; the rest exercise 'a mate-in-one score is reported only when the move mates'.",
            "positions": positions.len(),
            "searches_that_completed_a_pass": completed,
            "searches_at_later_expiry_points": deeper_searches,
            "exhaustive": true,
            "samples": [sample],
        }),
        &["reference mating set = legal moves after which the opponent is in check with no legal move", "'first pass finished' is observed through Engine::max_depth"],
    )
}

// ------------------------------------------------------------------------------ C13

fn negate(s: Score) -> Score {
    match s {
        Score::Min => Score::Max,
        Score::Max => Score::Min,
        Score::Raw(x) => Score::Raw(x.wrapping_neg()),
        Score::WhiteMateIn(n) => Score::BlackMateIn(n),
        Score::BlackMateIn(n) => Score::WhiteMateIn(n),
    }
}

/// (completed depth -> score) observed on a geometric ladder of expiry points
fn depth_scores(board: &Board, cap: u64, max_depth: u16) -> Result<BTreeMap<u16, Score>, String> {
    let mut out = BTreeMap::new();
    // every k up to 48 (cheap roots complete several passes within a few polls), then a geometric ladder
    let mut k: u64 = 1;
    loop {
        let o = search_k(board, k, false)?;
        if o.max_depth != SENTINEL {
            out.entry(o.max_depth).or_insert(o.score);
            if o.max_depth >= max_depth {
                break;
            }
        }
        if o.polls <= k || k >= cap {
            break;
        }
        // ratio ~1.25 so that consecutive depths are rarely skipped
        k = if k < 48 { k + 1 } else { (k * 5 / 4).max(k + 1) };
    }
    Ok(out)
}

pub fn c13_case(rp: &Position, cap: u64, max_depth: u16) -> (u64, Vec<Divergence>) {
    let fen = rp.to_fen();
    let m = rp.mirror();
    let (Ok(a), Ok(b)) = (parse_board(&fen), parse_board(&m.to_fen())) else { return (0, vec![]) };
    let (sa, sb) = match (depth_scores(&a, cap, max_depth), depth_scores(&b, cap, max_depth)) {
        (Ok(x), Ok(y)) => (x, y),
        (Err(e), _) | (_, Err(e)) => return (0, vec![Divergence::new("search-panics", format!("{fen}: {e}"))]),
    };
    let mut d = vec![];
    let mut compared = 0;
    for (depth, s) in &sa {
        if let Some(t) = sb.get(depth) {
            compared += 1;
            if *s != negate(*t) {
                d.push(Divergence::new(
                    format!("asymmetric-score:depth-{depth}"),
                    format!("{fen}: depth {depth} score {} but the mirrored position {} scores {} (expected {})", score_name(*s), m.to_fen(), score_name(*t), score_name(negate(*s))),
                ));
            }
        }
    }
    (compared, d)
}

/// Tactical five-men positions in which direct mates compete with longer mates found through the
/// capture extension: black king in a corner region, white king within distance 3, a white queen and
/// a white rook anywhere, a black rook within distance 2 of its king; either side to move.
fn competing_mates_family(stride: usize) -> Vec<Position> {
    use refchess::Pc;
    let mut out = vec![];
    let mut i = 0usize;
    for &bk in &[56u8, 57, 48, 63, 62, 55] {
        let (bf, br) = ((bk % 8) as i8, (bk / 8) as i8);
        for wk in 0..64u8 {
            let (wf, wr) = ((wk % 8) as i8, (wk / 8) as i8);
            let dk = (wf - bf).abs().max((wr - br).abs());
            if !(2..=3).contains(&dk) {
                continue;
            }
            for r in 0..64u8 {
                let (rf, rr) = ((r % 8) as i8, (r / 8) as i8);
                if (rf - bf).abs().max((rr - br).abs()) > 2 || r == bk || r == wk {
                    continue;
                }
                for q in 0..64u8 {
                    for wr_sq in 0..64u8 {
                        i += 1;
                        if i % stride != 0 {
                            continue;
                        }
                        if q == wr_sq || [bk, wk, r].contains(&q) || [bk, wk, r].contains(&wr_sq) {
                            continue;
                        }
                        for turn in [Col::W, Col::B] {
                            let mut p = Position::empty();
                            p.turn = turn;
                            p.full = 1;
                            p.board[bk as usize] = Some((Col::B, Pc::K));
                            p.board[wk as usize] = Some((Col::W, Pc::K));
                            p.board[r as usize] = Some((Col::B, Pc::R));
                            p.board[q as usize] = Some((Col::W, Pc::Q));
                            p.board[wr_sq as usize] = Some((Col::W, Pc::R));
                            if p.valid_root().is_ok() {
                                out.push(p);
                            }
                        }
                    }
                }
            }
        }
    }
    out
}

/// Material signatures around the evaluation's endgame threshold: every multiset of officers and
/// pawns (q,r,b,n <= 2, p <= 8) whose value (900/500/330/320/100) lies within `band` of 1800 for the
/// stronger side, against each of a fixed list of weaker sides (bare king, one man of each kind, the
/// same multiset), either side to move, one deterministic placement each (first valid one of a
/// fixed pseudo-random sequence: nobody in check, no promotion move available to either side).
fn material_threshold_family(band: i32, per_signature: usize) -> Vec<Position> {
    use refchess::Pc;
    let mut out = vec![];
    let mut sig = 0u64;
    for q in 0..=2usize {
        for r in 0..=2usize {
            for b in 0..=2usize {
                for n in 0..=2usize {
                    for pw in 0..=8usize {
                        let total = (q * 900 + r * 500 + b * 330 + n * 320 + pw * 100) as i32;
                        if (total - 1800).abs() > band || q + r + b + n + pw > 15 {
                            continue;
                        }
                        let strong: Vec<Pc> = std::iter::repeat(Pc::Q).take(q).chain(std::iter::repeat(Pc::R).take(r)).chain(std::iter::repeat(Pc::B).take(b)).chain(std::iter::repeat(Pc::N).take(n)).chain(std::iter::repeat(Pc::P).take(pw)).collect();
                        let weak_sides: Vec<Vec<Pc>> = vec![vec![], vec![Pc::P], vec![Pc::N], vec![Pc::B], vec![Pc::R], vec![Pc::Q], vec![Pc::R, Pc::P], strong.clone()];
                        for weak in weak_sides {
                            for strong_col in [Col::W, Col::B] {
                                for turn in [Col::W, Col::B] {
                                    sig += 1;
                                    let mut state = sig.wrapping_mul(0x9E37_79B9_7F4A_7C15) | 1;
                                    let mut next = |m: u64| {
                                        state ^= state << 13;
                                        state ^= state >> 7;
                                        state ^= state << 17;
                                        (state >> 11) % m
                                    };
                                    let mut found = 0;
                                    for _try in 0..400 {
                                        let mut p = Position::empty();
                                        p.turn = turn;
                                        p.full = 1;
                                        let mut ok = true;
                                        let put = |p: &mut Position, c: Col, pc: Pc, next: &mut dyn FnMut(u64) -> u64| -> bool {
                                            for _ in 0..64 {
                                                let sq = if pc == Pc::P {
                                                    // own ranks 2..6: no promotion next move
                                                    let rank = 1 + next(5) as u8;
                                                    let rank = if c == Col::W { rank } else { 7 - rank };
                                                    rank * 8 + next(8) as u8
                                                } else {
                                                    next(64) as u8
                                                };
                                                if p.board[sq as usize].is_none() {
                                                    p.board[sq as usize] = Some((c, pc));
                                                    return true;
                                                }
                                            }
                                            false
                                        };
                                        ok &= put(&mut p, Col::W, Pc::K, &mut next);
                                        ok &= put(&mut p, Col::B, Pc::K, &mut next);
                                        for &pc in &strong {
                                            ok &= put(&mut p, strong_col, pc, &mut next);
                                        }
                                        for &pc in &weak {
                                            ok &= put(&mut p, strong_col.flip(), pc, &mut next);
                                        }
                                        if !ok || p.valid_root().is_err() {
                                            continue;
                                        }
                                        let mut other = p.clone();
                                        other.turn = turn.flip();
                                        if other.valid_root().is_err() {
                                            // somebody is in check
                                            continue;
                                        }
                                        if p.legal_moves().is_empty() || p.legal_moves().iter().any(|m| m.promo.is_some()) {
                                            continue;
                                        }
                                        out.push(p);
                                        found += 1;
                                        if found >= per_signature {
                                            break;
                                        }
                                    }
                                }
                            }
                        }
                    }
                }
            }
        }
    }
    out
}

/// Small material signatures: every pair of multisets of at most two men (queen, rook, bishop,
/// knight, pawn) per side, both sides to move, `per` deterministic placements each (first valid
/// ones of a fixed pseudo-random sequence: nobody in check, no promotion move for the mover).
/// Captures inside the tree reduce these to every smaller signature (K+N+N v K, K+B v K, ...).
fn small_material_family(per: usize) -> Vec<Position> {
    use refchess::Pc;
    let kinds = [Pc::Q, Pc::R, Pc::B, Pc::N, Pc::P];
    let mut sets: Vec<Vec<Pc>> = vec![vec![]];
    for (i, a) in kinds.iter().enumerate() {
        sets.push(vec![*a]);
        for b in kinds.iter().skip(i) {
            sets.push(vec![*a, *b]);
        }
    }
    let mut out = vec![];
    let mut sig = 0u64;
    for w in &sets {
        for b in &sets {
            if w.is_empty() && b.is_empty() {
                continue;
            }
            for turn in [Col::W, Col::B] {
                sig += 1;
                let mut state = sig.wrapping_mul(0xD6E8_FEB8_6659_FD93) | 1;
                let mut next = |m: u64| {
                    state ^= state << 13;
                    state ^= state >> 7;
                    state ^= state << 17;
                    (state >> 11) % m
                };
                let mut found = 0;
                for _try in 0..300 {
                    let mut p = Position::empty();
                    p.turn = turn;
                    p.full = 1;
                    let mut ok = true;
                    let put = |p: &mut Position, c: Col, pc: Pc, next: &mut dyn FnMut(u64) -> u64| -> bool {
                        for _ in 0..64 {
                            let sq = if pc == Pc::P {
                                let rank = 1 + next(6) as u8;
                                let rank = if c == Col::W { rank } else { 7 - rank };
                                rank * 8 + next(8) as u8
                            } else {
                                next(64) as u8
                            };
                            if p.board[sq as usize].is_none() {
                                p.board[sq as usize] = Some((c, pc));
                                return true;
                            }
                        }
                        false
                    };
                    ok &= put(&mut p, Col::W, Pc::K, &mut next);
                    ok &= put(&mut p, Col::B, Pc::K, &mut next);
                    for &pc in w {
                        ok &= put(&mut p, Col::W, pc, &mut next);
                    }
                    for &pc in b {
                        ok &= put(&mut p, Col::B, pc, &mut next);
                    }
                    if !ok || p.valid_root().is_err() {
                        continue;
                    }
                    let mut other = p.clone();
                    other.turn = turn.flip();
                    if other.valid_root().is_err() {
                        continue;
                    }
                    let l = p.legal_moves();
                    if l.is_empty() || l.iter().any(|m| m.promo.is_some()) {
                        continue;
                    }
                    out.push(p);
                    found += 1;
                    if found >= per {
                        break;
                    }
                }
            }
        }
    }
    out
}

/// A fixed catalogue of sparse positions: `n` candidates drawn from a fixed xorshift sequence (the
/// same list on every run and for every seed), anywhere on the board, either side to move, nobody
/// in check, no promotion move at the root. General: each side a king plus 0..=4 men (queen,
/// rook, bishop, knight, pawn). Lopsided (mate-rich): one side a queen plus 1..=3 officers, the
/// other 0..=3 men.  Not a closed domain: see DESIGN.md (C13) for why it is there.
fn sparse_catalogue(n: usize, lopsided: bool) -> Vec<Position> {
    use refchess::Pc;
    let mut out = vec![];
    let mut state: u64 = if lopsided { 0x9E37_79B9_7F4A_7C15 } else { 0x2545_F491_4F6C_DD1D };
    let mut next = |m: u64| {
        state ^= state << 13;
        state ^= state >> 7;
        state ^= state << 17;
        (state >> 11) % m
    };
    let kinds = [Pc::Q, Pc::R, Pc::B, Pc::N, Pc::P, Pc::P, Pc::B, Pc::N];
    for _ in 0..n {
        let mut p = Position::empty();
        p.turn = if next(2) == 0 { Col::W } else { Col::B };
        p.full = 1;
        let mut ok = true;
        let mut put = |p: &mut Position, c: Col, pc: Pc, next: &mut dyn FnMut(u64) -> u64| -> bool {
            for _ in 0..32 {
                let sq = if pc == Pc::P {
                    let rank = 1 + next(6) as u8; // up to the seventh rank: the root filter drops positions whose mover can promote
                    let rank = if c == Col::W { rank } else { 7 - rank };
                    rank * 8 + next(8) as u8
                } else {
                    next(64) as u8
                };
                if p.board[sq as usize].is_none() {
                    p.board[sq as usize] = Some((c, pc));
                    return true;
                }
            }
            false
        };
        ok &= put(&mut p, Col::W, Pc::K, &mut next);
        ok &= put(&mut p, Col::B, Pc::K, &mut next);
        if lopsided {
            // one side: queen + 1..=3 officers; the other: 0..=3 men
            let strong = if next(2) == 0 { Col::W } else { Col::B };
            ok &= put(&mut p, strong, Pc::Q, &mut next);
            let officers = [Pc::Q, Pc::R, Pc::B, Pc::N, Pc::R, Pc::B];
            for _ in 0..(1 + next(3)) {
                let pc = officers[next(officers.len() as u64) as usize];
                ok &= put(&mut p, strong, pc, &mut next);
            }
            for _ in 0..next(4) {
                let pc = kinds[next(kinds.len() as u64) as usize];
                ok &= put(&mut p, strong.flip(), pc, &mut next);
            }
        } else {
        for c in [Col::W, Col::B] {
            let men = next(5);
            for _ in 0..men {
                let pc = kinds[next(kinds.len() as u64) as usize];
                ok &= put(&mut p, c, pc, &mut next);
            }
        }
        }
        if !ok || p.valid_root().is_err() {
            continue;
        }
        let mut other = p.clone();
        other.turn = p.turn.flip();
        if other.valid_root().is_err() {
            continue;
        }
        let l = p.legal_moves();
        if l.is_empty() || l.iter().any(|m| m.promo.is_some()) {
            continue;
        }
        out.push(p);
    }
    out
}

pub fn run_c13(args: &Args) -> i32 {
    let report = Report::new("C13", args.tier, args.seed, "exploration");
    silence_panics();
    let mut positions = search_positions(args.tier);
    // lopsided endgames (K+Q/R/P v K, K+Q v K+N/R): the endgame terms of the evaluation only fire there
    let stride = args.tier.pick(811, 47);
    positions.extend(c12_positions(Tier::Quick).into_iter().step_by(stride));
    // sparse tactical positions: reference BFS to depth 2 from every catalogue root with at most 12 men
    {
        let e1_stride: usize = std::env::var("C13_E1_STRIDE").ok().and_then(|x| x.parse().ok()).unwrap_or(args.tier.pick(9, 1));
        let (roots, _) = all_roots();
        let mut i = 0usize;
        for r in roots {
            if r.pos.count(Col::W) + r.pos.count(Col::B) > 12 {
                continue;
            }
            let mut frontier = vec![r.pos.clone()];
            let mut seen = std::collections::BTreeSet::new();
            for _ in 0..=2 {
                let mut next = vec![];
                for p in &frontier {
                    if !seen.insert(p.identity()) {
                        continue;
                    }
                    i += 1;
                    if i % e1_stride == 0 {
                        positions.push(p.clone());
                    }
                    for m in p.legal_moves() {
                        next.push(p.make(m));
                    }
                }
                frontier = next;
            }
        }
    }
    let cm_stride: usize = std::env::var("C13_CM_STRIDE").ok().and_then(|x| x.parse().ok()).unwrap_or(args.tier.pick(401, 37));
    positions.extend(competing_mates_family(cm_stride));
    // endgames in which a side may still castle (king mobility counts castling moves in the endgame term)
    for (i, p) in family_positions(Family::Castle, 0).into_iter().enumerate() {
        if i % args.tier.pick(37, 5) == 0 {
            for q in [p.clone(), p.mirror()] {
                if q.valid_root().is_ok() {
                    positions.push(q);
                }
            }
        }
    }
    // material signatures around the endgame threshold of the evaluation
    {
        let fam = material_threshold_family(args.tier.pick(100, 200), args.tier.pick(1, 3));
        eprintln!("[C13] material-threshold family: {} positions", fam.len());
        positions.extend(fam);
    }
    {
        let fam = small_material_family(args.tier.pick(3, 12));
        eprintln!("[C13] small-material signature family: {} positions", fam.len());
        positions.extend(fam);
    }
    // fixed catalogues of sparse positions (see DESIGN.md, C13): mate-rich lopsided material, and
    // (thorough) general sparse material
    {
        let a = sparse_catalogue(args.tier.pick(24_000, 240_000), true);
        let b = if args.tier == Tier::Thorough { sparse_catalogue(120_000, false) } else { vec![] };
        eprintln!("[C13] sparse catalogues: {} lopsided, {} general positions", a.len(), b.len());
        if std::env::var("C13_SPARSE_ONLY").is_ok() {
            // experiment switch: only these
            positions.clear();
        }
        positions.extend(a);
        positions.extend(b);
    }
    // no promotion available at the root (property text); one representative per mirror pair
    positions.retain(|p| !p.legal_moves().iter().any(|m| m.promo.is_some()) && !p.mirror().legal_moves().iter().any(|m| m.promo.is_some()));
    let mut seen = std::collections::BTreeSet::new();
    positions.retain(|p| {
        let (a, b) = (p.to_fen(), p.mirror().to_fen());
        let key = if a < b { a } else { b };
        seen.insert(key)
    });
    let cap = args.tier.pick(40_000u64, 400_000);
    let max_depth = args.tier.pick(3u16, 4);
    let res: Vec<(u64, Vec<Divergence>)> = positions.par_iter().map(|p| c13_case(p, cap, max_depth)).collect();
    let mut compared = 0u64;
    let mut pairs_with_depth = 0u64;
    let mut by_depth: BTreeMap<u64, u64> = BTreeMap::new();
    for (p, (c, d)) in positions.iter().zip(res.iter()) {
        compared += c;
        if *c > 0 {
            pairs_with_depth += 1;
        }
        *by_depth.entry(*c).or_insert(0) += 1;
        report.record(d, || json!({"kind": "symmetry", "fen": p.to_fen()}));
    }
    restore_panics();
    if compared < 100 {
        machinery_failure("C13: fewer than 100 (position, depth) comparisons: vacuous");
    }
    let si = (args.seed as usize * 13 + 3) % positions.len();
    report.finish(
        json!({
            "evaluations": compared,
            "distinct_nontrivial": pairs_with_depth,
            "rule": "positions of the C11 catalogue plus every 811th (thorough 47th) position of the C12 endgame families and every 37th (thorough 5th) member of the castling family, plus a material-signature family (every multiset q,r,b,n <= 2, p <= 8 worth 1800 +-100 (thorough +-200) against eight weaker sides, both colours, both sides to move, one (thorough three) deterministic placement each), a small-material signature family (every pair of multisets of at most two men per side, both sides to move, three (thorough twelve) deterministic placements each) and two fixed catalogues of sparse positions (24 000 candidates (thorough 240 000) with lopsided, mate-rich material - one side a queen plus 1-3 officers, the other 0-3 men - and, thorough only, 120 000 candidates with 0-4 men a side; candidates come from a fixed xorshift sequence, the same list on every run), with no promotion move at the root (either colour), one representative per mirror pair; the position and its colour mirror are each searched with empty history at expiry points k = 1, 2, ..., 48, 60, 75, ... (ratio 1.25) up to the cap; the score committed for each completed depth is collected from those runs, and every depth both searches report is compared (score == negated mirror score). evaluations = (pair, depth) comparisons; non-trivial = pairs with at least one common completed depth.",
            "mirror_pairs": positions.len(),
            "pairs_by_number_of_depths_compared": by_depth.iter().map(|(k, v)| json!([k, v])).collect::<Vec<_>>(),
            "cap_k": cap, "max_depth_compared": max_depth,
            "exhaustive": false,
            "exhaustive_note": "complete over the stated position catalogue; per position the depths compared are those completed below the cap",
            "samples": [{"fen": positions[si].to_fen(), "mirror": positions[si].mirror().to_fen()}],
        }),
        &["moves are not compared (tie-breaking follows square order, which the mirror does not preserve); the root value of the full-window search is order-independent", "default Engine configuration (positional evaluation off), empty repetition history"],
    )
}

pub fn replay(prop: &str, case: &Value) -> Vec<Divergence> {
    silence_panics();
    if case["kind"].as_str() == Some("search-with-history") {
        let moves: Vec<String> = case["moves"].as_array().map(|a| a.iter().filter_map(|x| x.as_str().map(|s| s.to_string())).collect()).unwrap_or_default();
        let mv: Vec<&str> = moves.iter().map(|s| s.as_str()).collect();
        return history_case(case["start"].as_str().unwrap(), &mv, case["k"].as_u64().unwrap()).1;
    }
    let fen = case["fen"].as_str().unwrap();
    let rp = Position::from_fen(fen).unwrap();
    match prop {
        "C11" => {
            if case["kind"].as_str() == Some("plugin-search") {
                return crate::plugin::replay_plugin_search(case);
            }
            if case["kind"].as_str() == Some("search-reuse") {
                let a = Position::from_fen(case["first"].as_str().unwrap()).unwrap();
                return reuse_case(&a, &rp, case["k"].as_u64().unwrap());
            }
            let board = parse_board(fen).unwrap();
            c11_case(&rp, &board, &rp.legal_moves(), case["k"].as_u64().unwrap(), case["positional"].as_bool().unwrap_or(false)).1
        }
        "C12" if case["kind"].as_str() == Some("mate-deeper") => {
            let ks: Vec<u64> = case["ks"].as_array().map(|a| a.iter().filter_map(|x| x.as_u64()).collect()).unwrap_or_default();
            c12_deeper(&rp, false, &ks).1
        }
        "C12" => c12_case(&rp, case["positional"].as_bool().unwrap_or(false)).2,
        _ => c13_case(&rp, 200_000, 3).1,
    }
}
