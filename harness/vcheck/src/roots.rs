//! Root catalogue for the position explorer (DESIGN §2.3) and the scenario expectations.

use crate::common::*;
use refchess::{Mv, Position};

pub const START_FEN: &str = "rnbqkbnr/pppppppp/8/8/8/8/PPPPPPPP/RNBQKBNR w KQkq - 0 0";

/// FENs of the repository's own perft tests + CPW positions 2-6
pub const PERFT_FENS: &[&str] = &[
    "r3k2r/p1ppqpb1/bn2pnp1/3PN3/1p2P3/2N2Q1p/PPPBBPPP/R3K2R w KQkq - 0 1",
    "8/5bk1/8/2Pp4/8/1K6/8/8 w - d6 0 1",
    "8/8/1k6/8/2pP4/8/5BK1/8 b - d3 0 1",
    "8/8/1k6/2b5/2pP4/8/5K2/8 b - d3 0 1",
    "8/5k2/8/2Pp4/2B5/1K6/8/8 w - d6 0 1",
    "5k2/8/8/8/8/8/8/4K2R w K - 0 1",
    "4k2r/8/8/8/8/8/8/5K2 b k - 0 1",
    "3k4/8/8/8/8/8/8/R3K3 w Q - 0 1",
    "r3k3/8/8/8/8/8/8/3K4 b q - 0 1",
    "r3k2r/1b4bq/8/8/8/8/7B/R3K2R w KQkq - 0 1",
    "r3k2r/7b/8/8/8/8/1B4BQ/R3K2R b KQkq - 0 1",
    "r3k2r/8/3Q4/8/8/5q2/8/R3K2R b KQkq - 0 1",
    "r3k2r/8/5Q2/8/8/3q4/8/R3K2R w KQkq - 0 1",
    "2K2r2/4P3/8/8/8/8/8/3k4 w - - 0 1",
    "3K4/8/8/8/8/8/4p3/2k2R2 b - - 0 1",
    "4k3/1P6/8/8/8/8/K7/8 w - - 0 1",
    "5K2/8/1Q6/2N5/8/1p2k3/8/8 w - - 0 1",
    "8/5k2/8/5N2/5Q2/2K5/8/8 w - - 0 1",
    "8/8/1P2K3/8/2n5/1q6/8/5k2 b - - 0 1",
    "8/8/2k5/5q2/5n2/8/5K2/8 b - - 0 1",
    "8/8/8/8/1k6/8/K1p5/8 b - - 0 1",
    "8/8/8/8/8/k7/p1K5/8 b - - 0 1",
    "8/8/8/8/8/p7/8/k1K5 b - - 0 1",
    "8/P1k5/K7/8/8/8/8/8 w - - 0 1",
    "8/k1P5/8/1K6/8/8/8/8 w - - 0 1",
    "8/k7/8/8/8/8/1p6/4K3 b - - 0 1",
    "K1k5/8/P7/8/8/8/8/8 w - - 0 1",
    "r4rk1/1pp1qppp/p1np1n2/2b1p1B1/2B1P1b1/P1NP1N2/1PP1QPPP/R4RK1 w - - 0 10",
    "rnbqkbnr/ppp2pp1/4p3/3N4/3PpPp1/8/PPP3PP/R1B1KBNR b KQkq f3 0 1",
    // CPW 3..6
    "8/2p5/3p4/KP5r/1R3p1k/8/4P1P1/8 w - - 0 1",
    "r3k2r/Pppp1ppp/1b3nbN/nP6/BBP1P3/q4N2/Pp1P2PP/R2Q1RK1 w kq - 0 1",
    "rnbq1k1r/pp1Pbppp/2p5/8/2B5/8/PPP1NnPP/RNBQK2R w KQ - 1 8",
];

/// extra clock / history roots
pub const EXTRA_FENS: &[&str] = &[
    "4k3/8/8/8/8/8/8/R3K3 w Q - 98 80",
    "4k3/8/8/8/8/8/4P3/R3K3 w Q - 100 80",
    "4k2r/8/8/8/8/8/8/R3K3 b Qk - 49 9998",
    "r3k2r/8/8/8/8/8/8/R3K2R w KQkq - 0 0",
    "r3k2r/8/8/8/8/8/8/R3K2R b KQkq - 0 0",
    // knights that can shuffle: repetition / transposition rich
    "1n2k3/8/8/8/8/8/8/1N2K3 w - - 0 1",
    "1n2k3/8/8/8/8/8/8/1N2K3 w - - 92 70",
    "1n2k3/8/8/8/8/8/8/1N2K3 b - - 97 70",
    // rooks that can return home: rights lost although the placement recurs
    "r3k2r/p6p/8/8/8/8/P6P/R3K2R w KQkq - 0 1",
    // double steps everywhere: ep markers with and without a capturer
    "4k3/pppppppp/8/PPPPPPPP/8/8/8/4K3 b - - 0 1",
    "4k3/8/8/8/pppppppp/8/PPPPPPPP/4K3 w - - 0 1",
];

/// crowded, fragmented placements (longest possible FEN texts); validated at start-up against the
/// reference's playability rules
pub const LONG_PLACEMENTS: &[&str] = &[
    "r1b1k2r/p1p1p1p1/1p1p1p1p/n1n1q1b1/1P1P1P1P/N1N1Q1B1/P1P1P1P1/R1B1K2R",
    "r3k2r/1p1p1p1p/p1p1p1p1/1n1b1q1n/N1B1Q1N1/1P1P1P1P/P1P1P1P1/R3K2R",
];

/// legally reachable positions with the maximum number of one officer type (promotions)
pub const PROMOTED_MATERIAL: &[&str] = &[
    "NNNNNNNN/8/8/8/8/1k6/6Q1/RNB1KBNR w KQ - 1 62",
    "BBBBBBBB/8/8/8/8/1k6/6Q1/RNB1KBNR b KQ - 1 62",
    "RRRRRRRR/8/8/8/8/1k6/8/RNBQKBNR b KQ - 1 62",
    "QQQQQQQQ/8/8/8/8/1k6/8/RNBQKBNR b KQ - 1 62",
    "rnbqkbnr/8/1K6/8/8/8/8/nnnnnnnn w kq - 1 62",
    "rnbqkbnr/8/1K6/8/8/8/8/rrrrrrrr w kq - 1 62",
    "rnbqkbnr/8/1K6/8/8/8/8/bbbbbbbb w kq - 1 62",
    "rnbqkbnr/8/1K6/8/8/8/8/qqqqqqqq w kq - 1 62",
];

#[derive(Clone, Debug)]
pub struct Scenario {
    pub id: String,
    pub fen: String,
    pub plus: Vec<Mv>,
    pub minus: Vec<Mv>,
    pub count: Option<usize>,
}

pub fn load_scenarios() -> Vec<Scenario> {
    let path = format!("{VERIF}/catalogue/scenarios.tsv");
    let text = std::fs::read_to_string(&path).unwrap_or_else(|e| machinery_failure(&format!("{path}: {e}")));
    let mut out = vec![];
    for line in text.lines() {
        if line.starts_with('#') || line.trim().is_empty() {
            continue;
        }
        let f: Vec<&str> = line.split('\t').collect();
        if f.len() < 3 {
            machinery_failure(&format!("bad scenario line: {line}"));
        }
        let mut sc = Scenario { id: f[0].into(), fen: f[1].into(), plus: vec![], minus: vec![], count: None };
        for e in f[2].split(',') {
            let e = e.trim();
            if let Some(m) = e.strip_prefix('+') {
                sc.plus.push(Mv::parse(m).unwrap_or_else(|| machinery_failure(&format!("bad move {m}"))));
            } else if let Some(m) = e.strip_prefix('-') {
                sc.minus.push(Mv::parse(m).unwrap_or_else(|| machinery_failure(&format!("bad move {m}"))));
            } else if let Some(n) = e.strip_prefix('#') {
                sc.count = Some(n.parse().unwrap());
            }
        }
        out.push(sc);
    }
    out
}

/// The scenario expectations are data about *chess*; the reference must satisfy every one of
/// them, otherwise the reference (or the catalogue) is wrong and no verdict may be issued.
/// the hand-written must-accept FENs are data about chess too: the reference must find them playable
pub fn validate_fixed_fens() {
    for f in PROMOTED_MATERIAL.iter().map(|s| s.to_string()).chain(LONG_PLACEMENTS.iter().flat_map(|p| ["w KQkq - 9999 9999", "b KQkq - 103 60", "w - - 0 1", "b - - 0 1"].iter().map(move |t| format!("{p} {t}")))) {
        let p = Position::from_fen(&f).unwrap_or_else(|e| machinery_failure(&format!("fixed FEN {f}: {e}")));
        if let Err(e) = p.playable() {
            machinery_failure(&format!("fixed FEN {f} is not playable according to the reference: {e}"));
        }
    }
}

pub fn validate_scenarios_against_reference(sc: &[Scenario]) {
    for s in sc {
        let p = Position::from_fen(&s.fen).unwrap_or_else(|e| machinery_failure(&format!("{}: {e}", s.id)));
        let l = p.legal_moves();
        for m in &s.plus {
            if !l.contains(m) {
                machinery_failure(&format!("scenario {}: reference says {} is illegal", s.id, m.uci()));
            }
        }
        for m in &s.minus {
            if l.contains(m) {
                machinery_failure(&format!("scenario {}: reference says {} is legal", s.id, m.uci()));
            }
        }
        if let Some(n) = s.count {
            if l.len() != n {
                machinery_failure(&format!("scenario {}: reference has {} moves, catalogue says {n}", s.id, l.len()));
            }
        }
    }
}

#[derive(Clone, Debug)]
pub struct Root {
    pub name: String,
    pub pos: Position,
}

/// every root, each also colour-mirrored; only roots admissible per DESIGN §2.2
pub fn all_roots() -> (Vec<Root>, Vec<String>) {
    let mut raw: Vec<(String, String)> = vec![("start".into(), START_FEN.into())];
    for (i, f) in PERFT_FENS.iter().enumerate() {
        raw.push((format!("perft{i}"), f.to_string()));
    }
    for (i, f) in EXTRA_FENS.iter().enumerate() {
        raw.push((format!("extra{i}"), f.to_string()));
    }
    for s in load_scenarios() {
        raw.push((format!("sc:{}", s.id), s.fen.clone()));
    }
    let mut roots = vec![];
    let mut rejected = vec![];
    let mut seen = std::collections::BTreeSet::new();
    for (name, fen) in raw {
        let p = Position::from_fen(&fen).unwrap_or_else(|e| machinery_failure(&format!("root {name}: {e}")));
        for (suffix, q) in [("", p.clone()), ("~mirror", p.mirror())] {
            match q.valid_root() {
                Ok(()) => {
                    if seen.insert(q.to_fen()) {
                        roots.push(Root { name: format!("{name}{suffix}"), pos: q });
                    }
                }
                Err(e) => rejected.push(format!("{name}{suffix}: {e}")),
            }
        }
    }
    (roots, rejected)
}
