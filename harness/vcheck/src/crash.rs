//! C07: no sequence of safe calls reaches a panic, an overflow, an out-of-bounds index or a
//! violated unchecked-operation precondition.
//!
//! The exhaustive drivers of the other properties are re-run in the *trapping* build flavour
//! (profile `checked`: release optimisation + debug assertions + overflow checks, so std's
//! unsafe-precondition checks, arrayvec's push_unchecked assertion, the repository's own
//! debug_assert!s and integer overflow all trap) inside worker processes.  A panic or a fatal
//! signal in a worker is an observation (message + the case in progress), not a harness crash.

use crate::common::*;
use crate::Args;
use serde_json::{json, Value};
use std::process::{Command, Stdio};

pub const CHECKED_BIN: &str = "/verif/target/checked/vcheck";

/// (driver name, arguments to the worker)
fn drivers(tier: Tier) -> Vec<(&'static str, Vec<&'static str>)> {
    let t = tier.name();
    let mut v = vec![
        ("extremal", vec!["worker", "extremal", "--tier", t]),
        ("C06+exercise", vec!["worker", "C06", "--tier", t]),
        ("C08", vec!["worker", "C08", "--tier", t]),
        ("C10", vec!["worker", "C10", "--tier", "quick"]),
        ("C11", vec!["worker", "C11", "--tier", "quick"]),
        ("C12", vec!["worker", "C12", "--tier", "quick"]),
        ("C15", vec!["worker", "C15", "--tier", t]),
        ("C17", vec!["worker", "C17", "--tier", t]),
        ("C18", vec!["worker", "C18", "--tier", "quick"]),
        ("C01", vec!["worker", "C01", "--tier", "quick"]),
        ("C03", vec!["worker", "C03", "--tier", "quick"]),
        ("C19", vec!["worker", "C19", "--tier", "quick"]),
        ("C14", vec!["worker", "C14", "--tier", "quick"]),
        ("C16", vec!["worker", "C16", "--tier", "quick"]),
    ];
    if tier == Tier::Thorough {
        v.push(("C02", vec!["worker", "C02", "--tier", "quick"]));
        v.push(("C05", vec!["worker", "C05", "--tier", "quick"]));
        v.push(("C13", vec!["worker", "C13", "--tier", "quick"]));
        v.push(("C09", vec!["worker", "C09", "--tier", "quick"]));
    }
    v
}

#[derive(Debug, Clone)]
struct Crash {
    class: String,
    detail: String,
    case: String,
    in_harness: bool,
}

fn classify_location(loc: &str) -> (String, bool) {
    // keep the file and line, drop the machine-specific prefix
    let in_harness = loc.contains("/verif/harness");
    let short = if let Some(i) = loc.find("/repo/") {
        loc[i + 6..].to_string()
    } else if let Some(i) = loc.find("registry/src/") {
        loc[i + 13..].splitn(2, '/').nth(1).unwrap_or(loc).to_string()
    } else if let Some(i) = loc.find("/library/") {
        loc[i + 1..].to_string()
    } else {
        loc.to_string()
    };
    (short, in_harness)
}

fn scan(driver: &str, stderr: &str, status: Option<i32>) -> Vec<Crash> {
    let mut out = vec![];
    let lines: Vec<&str> = stderr.lines().collect();
    for (i, line) in lines.iter().enumerate() {
        if let Some(rest) = line.strip_prefix("C07-PANIC at=") {
            let (loc, rest) = rest.split_once(" msg=").unwrap_or((rest, ""));
            let (msg, case) = rest.split_once(" case=").unwrap_or((rest, ""));
            let (short, in_harness) = classify_location(loc);
            out.push(Crash { class: format!("panic:{short}"), detail: format!("[{driver}] panic at {loc}: {msg}"), case: case.to_string(), in_harness });
        } else if let Some(rest) = line.strip_prefix("C07-ABORT signal=") {
            let (sig, case) = rest.split_once(" case=").unwrap_or((rest, ""));
            // the runtime prints its reason on the lines before the abort
            let reason = lines[..i].iter().rev().find(|l| !l.trim().is_empty() && !l.starts_with("C07-")).copied().unwrap_or("");
            let key: String = reason.chars().filter(|c| c.is_ascii_alphanumeric() || *c == ' ' || *c == ':' || *c == '_').take(70).collect();
            out.push(Crash { class: format!("abort:signal-{sig}:{}", key.trim().replace(' ', "-")), detail: format!("[{driver}] fatal signal {sig}: {reason}"), case: case.to_string(), in_harness: false });
        }
    }
    if out.is_empty() {
        match status {
            Some(0) | Some(1) => {}
            other => out.push(Crash {
                class: "worker-lost".into(),
                detail: format!("[{driver}] worker ended with status {other:?} without reporting a case; last output: {}", lines.iter().rev().take(3).cloned().collect::<Vec<_>>().join(" | ")),
                case: String::new(),
                in_harness: true,
            }),
        }
    }
    out
}

static REDUCED_TIER: std::sync::atomic::AtomicBool = std::sync::atomic::AtomicBool::new(false);
fn reduced_tier() -> bool {
    REDUCED_TIER.load(std::sync::atomic::Ordering::Relaxed)
}

fn run_worker(args: &[&str], threads: usize) -> (String, String, Option<i32>) {
    let out = Command::new(CHECKED_BIN)
        .args(args)
        .env("VCHECK_WORKER", "1")
        .envs(if reduced_tier() { vec![("VCHECK_REDUCED", "1")] } else { vec![] })
        .env("RAYON_NUM_THREADS", threads.to_string())
        .env("RUST_BACKTRACE", "0")
        .stdin(Stdio::null())
        .output()
        .unwrap_or_else(|e| machinery_failure(&format!("cannot start worker {CHECKED_BIN}: {e}")));
    (String::from_utf8_lossy(&out.stdout).into_owned(), String::from_utf8_lossy(&out.stderr).into_owned(), out.status.code())
}

/// run one worker of the trapping flavour; returns (cases executed, crashes located outside the harness)
pub fn trapping_pass(args: &[&str], env: &[(&str, &str)]) -> (u64, Vec<(String, String, String)>) {
    if !std::path::Path::new(CHECKED_BIN).exists() {
        machinery_failure("trapping-flavour binary missing (the ./check driver builds it)");
    }
    let out = Command::new(CHECKED_BIN)
        .args(args)
        .env("VCHECK_WORKER", "1")
        .envs(env.iter().cloned())
        .env("RUST_BACKTRACE", "0")
        .stdin(Stdio::null())
        .output()
        .unwrap_or_else(|e| machinery_failure(&format!("cannot start worker {CHECKED_BIN}: {e}")));
    let stdout = String::from_utf8_lossy(&out.stdout);
    let stderr = String::from_utf8_lossy(&out.stderr);
    let mut n = 0;
    for line in stdout.lines() {
        if let Some(rest) = line.strip_prefix("WORKER-COVERAGE ") {
            if let Some((_, js)) = rest.split_once(' ') {
                if let Ok(v) = serde_json::from_str::<Value>(js) {
                    n += v["evaluations"].as_u64().unwrap_or(0);
                }
            }
        }
    }
    let mut crashes = vec![];
    for c in scan(args.get(1).copied().unwrap_or("?"), &stderr, out.status.code()) {
        if c.in_harness {
            machinery_failure(&format!("trapping-flavour worker failed inside the harness: {}", c.detail));
        }
        crashes.push((c.class, c.detail, c.case));
    }
    if n == 0 && crashes.is_empty() {
        machinery_failure("trapping-flavour worker reported no coverage");
    }
    (n, crashes)
}

pub fn run_c07(args: &Args) -> i32 {
    let report = Report::new("C07", args.tier, args.seed, "exploration");
    if !std::path::Path::new(CHECKED_BIN).exists() {
        machinery_failure("trapping-flavour binary missing (./check C07 builds it)");
    }
    let ds = drivers(args.tier);
    REDUCED_TIER.store(args.tier == Tier::Quick, std::sync::atomic::Ordering::Relaxed);
    // workers run concurrently, each with a share of the cores
    let threads = 4;
    let results: Vec<(String, String, String, Option<i32>, f64)> = std::thread::scope(|s| {
        let mut handles = vec![];
        let sem = std::sync::Arc::new(std::sync::Mutex::new(()));
        let _ = sem;
        // four at a time
        let chunks: Vec<Vec<(&str, Vec<&str>)>> = ds.chunks(16).map(|c| c.to_vec()).collect();
        let mut all = vec![];
        for chunk in chunks {
            for (name, a) in chunk {
                handles.push(s.spawn(move || {
                    let t0 = std::time::Instant::now();
                    // the C06 worker (every accepted board driven through the whole safe API) is the
                    // critical path: it gets the larger share of the cores
                    let (o, e, st) = run_worker(&a, if name.starts_with("C06") { 3 * threads } else { threads.saturating_sub(1).max(2) });
                    (name.to_string(), o, e, st, t0.elapsed().as_secs_f64())
                }));
            }
            for h in handles.drain(..) {
                all.push(h.join().unwrap());
            }
        }
        all
    });
    let mut evaluations = 0u64;
    let mut nontrivial = 0u64;
    let mut per_driver = vec![];
    let mut machinery = vec![];
    for (name, stdout, stderr, status, secs) in &results {
        let mut cov = 0u64;
        for line in stdout.lines() {
            if let Some(rest) = line.strip_prefix("WORKER-COVERAGE ") {
                if let Some((_, js)) = rest.split_once(' ') {
                    if let Ok(v) = serde_json::from_str::<Value>(js) {
                        cov += v["evaluations"].as_u64().or(v["states"].as_u64()).unwrap_or(0);
                    }
                }
            }
        }
        evaluations += cov;
        // C14 / C16 / C19 drive code without unchecked operations, table lookups or fixed-capacity lists
        if !matches!(name.as_str(), "C14" | "C16" | "C19") {
            nontrivial += cov;
        }
        let crashes = scan(name, stderr, *status);
        per_driver.push(json!({"driver": name, "cases_executed": cov, "exit_status": status, "crash_reports": crashes.len(), "wall_s": (secs * 10.0).round() / 10.0}));
        if cov == 0 && crashes.is_empty() {
            machinery.push(format!("driver {name} reported no coverage (status {status:?})"));
        }
        for c in crashes {
            if c.in_harness {
                machinery.push(c.detail.clone());
                continue;
            }
            report.record(&[Divergence::new(c.class.clone(), format!("{} | case: {}", c.detail, c.case))], || json!({"kind": "crash", "driver": name, "worker_case": c.case}));
        }
    }
    if !machinery.is_empty() {
        for m in &machinery {
            eprintln!("MACHINERY: {m}");
        }
        machinery_failure("a C07 worker failed for reasons inside the harness (see above)");
    }
    report.finish(
        json!({
            "evaluations": evaluations,
            "distinct_nontrivial": nontrivial,
            "rule": "non-trivial = cases of the drivers whose subject code contains unchecked operations, table lookups or the fixed-capacity move list (all but C14, C16, C19). The exhaustive drivers of C01, C03, C06 (every accepted board additionally driven through every safe operation two plies deep), C08, C10, C11 (every expiry point, plugin included), C12, C15, C17, C18 (thorough: also C02, C05, C13, C19) and an extremal-position driver (18-entry move lists, maximal mobility, positions the parser accepts outside the admissible-root set, degenerate search roots driven for 70 000 passes, 300 occurrences of one position in the repetition table) executed in the trapping build flavour inside worker processes; a case = one input/sequence of those drivers; all of them are distinct by construction and every one is a crash probe.",
            "drivers": per_driver,
            "flavour": "profile checked: opt-level 3, debug-assertions on, overflow-checks on, -Ctarget-cpu=native",
            "exhaustive": true,
            "exhaustive_note": "complete over the drivers' stated bounds (see the evidence of the owning properties)",
            "samples": [{"driver": "extremal", "case": "4k3/8/8/2PpP1N1/2B2B2/2N5/PP1P1PPP/R2QK2R w KQ d6 0 1 (18 move-list entries)"}],
        }),
        &[
            "oracle = worker exit status, panic hook and fatal-signal handler; the trapping flavour turns violated unchecked preconditions into aborts",
            "not checked (outside the property's operation list): direct mutation of a free-standing RawBoard, Pos::const_from_u8(>= 64), the unsafe move_unchecked* functions with illegal moves",
        ],
    )
}

/// replay of a fatal signal seen by a main-process check: run the recorded case in a child process
/// of the shipped flavour and see whether it dies again
pub fn replay_fatal(case: &Value) -> Vec<Divergence> {
    let wc = &case["worker_case"];
    if wc.is_null() {
        return vec![];
    }
    let exe = std::env::current_exe().unwrap_or_else(|e| machinery_failure(&format!("current_exe: {e}")));
    let out = Command::new(exe)
        .args(["worker-case", &wc.to_string()])
        .env("VCHECK_WORKER", "1")
        .stdin(Stdio::null())
        .output()
        .unwrap_or_else(|e| machinery_failure(&format!("cannot start replay child: {e}")));
    let stderr = String::from_utf8_lossy(&out.stderr);
    if out.status.code() != Some(0) || stderr.contains("C07-ABORT") || stderr.contains("C07-PANIC") {
        vec![Divergence::new("fatal-signal-in-implementation", format!("the recorded case crashes a child process again (status {:?})", out.status.code()))]
    } else {
        vec![]
    }
}

/// replay: re-run the recorded case in the trapping flavour
pub fn replay_c07(case: &Value) -> Vec<Divergence> {
    let wc = case["worker_case"].as_str().unwrap_or("");
    let driver = case["driver"].as_str().unwrap_or("");
    let (args, _owned): (Vec<String>, ()) = if wc.is_empty() {
        (vec!["worker".into(), driver.split('+').next().unwrap_or("extremal").to_string(), "--tier".into(), "quick".into()], ())
    } else {
        (vec!["worker-case".into(), wc.to_string()], ())
    };
    let a: Vec<&str> = args.iter().map(|s| s.as_str()).collect();
    let (_, stderr, status) = run_worker(&a, 4);
    scan(driver, &stderr, status).into_iter().map(|c| Divergence::new(c.class, c.detail)).collect()
}

// ------------------------------------------------------------------ extremal driver (runs inside the worker)

pub fn extremal(tier: Tier) -> u64 {
    use crate::fenfuzz::exercise;
    use chess_engine::{Engine, ThreeFold};
    let mut n = 0u64;
    let odd_but_accepted = [
        // 18 move-list entries (16 mobile pieces + two en-passant capturers), both colours
        "4k3/8/8/2PpP1N1/2B2B2/2N5/PP1P1PPP/R2QK2R w KQ d6 0 1",
        "r2qk2r/pp1p1ppp/2n5/2b2b2/2pPp1n1/8/8/4K3 b kq d3 0 1",
        // maximal mobility (218 moves) and nine queens
        "R6R/3Q4/1Q4Q1/4Q3/2Q4Q/Q4Q2/pp1Q4/kBNN1KB1 w - - 0 1",
        "QQQQQQQQ/Q7/8/8/8/8/8/K1k5 w - - 0 1",
        "3Q4/1Q4Q1/4Q3/2Q4R/Q4Q2/3Q4/1Q4Rp/1K1BBNNk w - - 0 1",
        // accepted by the parser although outside the admissible-root set
        "4k3/8/8/8/8/8/8/P3K2p w - - 0 1",
        "p3k2P/8/8/8/8/8/8/4K3 b - - 0 1",
        "P3k3/8/8/8/8/8/8/4K2p b - - 0 1",
        "4k3/3p4/8/3pP3/8/8/8/4K3 w - d6 0 1",
        "4k3/8/8/8/3Pp3/8/3P4/4K3 b - d3 0 1",
        "8/5bk1/8/2Pp4/8/1K6/8/8 w - d6 0 1",
        // every piece of one side pinned; double check; promotions with captures on every file
        "4k3/8/8/b6b/8/2PNP3/3K4/q2r3q w - - 0 1",
        "1n1n1n1n/P1P1P1P1/8/8/8/8/k7/4K3 w - - 0 1",
        "r3k2r/pppppppp/8/8/8/8/PPPPPPPP/R3K2R w KQkq - 0 1",
        "7k/5Q2/6K1/8/8/8/8/8 b - - 0 1",
        "4k3/8/8/8/8/8/8/4K2R w K - 9999 9999",
        // over-full sides (17-19 mobile pieces, 17/15 split with two ep capturers): a correct tree
        // rejects these; if any validation lets them through, move generation needs more than the
        // 18 move-list entries
        "4k3/8/8/8/NNNNNNNN/NNNNNNNN/NN6/4K3 w - - 0 1",
        "4k3/nn6/nnnnnnnn/nnnnnnnn/8/8/8/4K3 b - - 0 1",
        "4k3/8/8/8/NNNNNNNN/NNNNNNNN/8/4K3 w - - 0 1",
        "4k3/8/nnnnnnnn/nnnnnnnn/8/8/8/4K3 b - - 0 1",
        "4k3/8/8/8/NNNNNNNN/NNNNNNNN/8/4K3 b - - 0 1",
        "4k3/8/nnnnnnnn/nnnnnnnn/8/8/8/4K3 w - - 0 1",
        "r3k2r/pp1p1ppp/2n5/2b2b2/2pPp1n1/2N2N2/PPP1PPPP/RNBQKB1R b KQkq d3 0 1",
        "rnbqkb1r/ppp1pppp/2n2n2/2PpP1N1/2B2B2/2N5/PP1P1PPP/R2QK2R w KQkq d6 0 1",
        "rnbqkbnr/pppppppp/8/8/8/8/PPPPPPPP/RNBQKBNR w KQkq - 0 1",
        // both kings attacked (knight / pawn / slider on the side not to move): a correct tree rejects
        // these; if one gets through, a king can be captured three plies later
        "4r1k1/p7/5N2/8/8/8/8/4K3 w - - 0 1",
        "4K3/8/8/8/8/5n2/P7/4R1k1 w - - 0 1",
        "4k3/3P4/8/8/8/8/3p4/4K3 w - - 0 1",
        "4k3/3P4/8/8/8/8/3p4/4K3 b - - 0 1",
        "4r1k1/8/8/8/8/8/8/4K1R1 w - - 0 1",
        // an en-passant marker while the mover is in check by ANOTHER pawn / a knight / a slider (not
        // reachable by play, accepted by the parser): the capture must not be offered unless it
        // really ends the check, or a king is captured two plies later
        "k7/8/8/3pP2p/6K1/8/8/8 w - d6 0 1",
        "8/8/8/6k1/3Pp2P/8/8/K7 b - d3 0 1",
        "k7/8/8/3pP3/6K1/4n3/8/8 w - d6 0 1",
        "k7/8/8/3pP3/6K1/8/8/6r1 w - d6 0 1",
        "k7/8/8/2KpP3/8/8/8/8 w - d6 0 1",
        // double checks by two sliders in parsed positions (accepted): detection from scratch must keep both
        "k3r3/8/8/8/7b/8/8/3QK3 w - - 0 1",
        "k3q3/8/8/8/7q/8/8/3RK3 w - - 0 1",
        "k3r3/8/8/8/7b/8/8/4K2R w - - 0 1",
        "3qk3/8/8/7B/8/8/8/K3R3 b - - 0 1",
        "4k2r/8/8/7B/8/8/8/K3R3 b - - 0 1",
    ];
    for f in odd_but_accepted {
        set_case(|| json!({"property": "C06", "case": {"kind": "bytes", "hex": f.bytes().map(|b| format!("{b:02x}")).collect::<String>()}}).to_string());
        if let Ok(b) = parse_board(f) {
            // one ply further for the opponent of an over-full side
            n += exercise(&b, 2);
            // and a short search on each
            let mut e = Engine::default();
            let tf = ThreeFold::new();
            let t = crate::search::CountingTimeout::new(500);
            let _ = e.search(&b, &tf, &t);
            n += 1;
        }
    }
    // the public node counter at every small depth (0 included) on every extremal position (crash
    // probe only: its value is owned by no property)
    for f in odd_but_accepted.iter().chain(["4k3/8/8/8/8/8/8/4K3 w - - 0 1", "7k/5Q2/6K1/8/8/8/8/8 b - - 0 1"].iter()) {
        let Ok(b) = parse_board(f) else { continue };
        for depth in 0..=2usize {
            set_case(|| json!({"property": "C07", "case": {"kind": "perft", "fen": f, "depth": depth}}).to_string());
            // a panic is reported by the hook; keep going so the later probes still run
            let _ = std::panic::catch_unwind(|| b.perft_test(depth));
            n += 1;
        }
    }
    // the wall-clock timeout at the boundary values of its argument
    for d in [std::time::Duration::ZERO, std::time::Duration::from_nanos(1), std::time::Duration::from_secs(1), std::time::Duration::from_secs(u32::MAX as u64), std::time::Duration::from_secs(u64::MAX / 2), std::time::Duration::MAX] {
        set_case(|| json!({"property": "C07", "case": {"kind": "duration-timeout", "secs": d.as_secs(), "nanos": d.subsec_nanos()}}).to_string());
        let _ = std::panic::catch_unwind(|| {
            let t = chess_engine::DurationTimeout::new(d);
            let _ = chess_engine::Timeout::is_complete(&t);
            // a finished game: the search returns by itself whatever the deadline
            let b = parse_board("7k/5Q2/6K1/8/8/8/8/8 b - - 0 1").unwrap();
            let mut e = Engine::default();
            e.max_depth = 3;
            let _ = e.search(&b, &ThreeFold::new(), &t);
        });
        n += 1;
    }
    // boards the builder assembles with every boundary value of its two u16 clocks (the builder
    // takes the whole u16 range, the parser only four digits), driven two plies through every
    // safe operation: the counters are incremented by every quiet move / every black move
    for f in ["1n2k3/8/8/8/8/8/8/1N2K3 w - - 0 1", "1n2k3/8/8/8/8/8/8/1N2K3 b - - 0 1", "4k3/4p3/8/8/8/8/4P3/4K3 w - - 0 1", "4k3/4p3/8/8/8/8/4P3/4K3 b - - 0 1"] {
        let rp = refchess::Position::from_fen(f).unwrap();
        for half in [0u16, 99, 100, 9999, 10000, 65534, 65535] {
            for full in [0u16, 1, 9999, 10000, 65534, 65535] {
                set_case(|| json!({"property": "C07", "case": {"kind": "builder-clocks", "fen": f, "half": half, "full": full}}).to_string());
                n += builder_clock_case(&rp, half, full);
            }
        }
    }
    // degenerate search roots driven for more than 65 536 deepening passes
    let passes = tier.pick(70_000u64, 140_000);
    for f in ["7k/5Q2/6K1/8/8/8/8/8 b - - 0 1", "7k/6Q1/6K1/8/8/8/8/8 b - - 0 1", "k7/8/8/8/8/8/8/K7 w - - 99 80", "k7/8/8/8/8/8/8/K7 w - - 100 80"] {
        let b = parse_board(f).unwrap();
        // each pass of a root without legal moves costs one poll; with the clock at 99 each pass
        // costs one poll per root move plus one
        let k = passes * (b.legals().len() as u64 * 2 + 2);
        set_case(|| json!({"property": "C11", "case": {"kind": "search", "fen": f, "k": k, "positional": false}}).to_string());
        // a panic here is reported by the hook; keep going so the later probes still run
        let _ = std::panic::catch_unwind(|| {
            let mut e = Engine::default();
            let tf = ThreeFold::new();
            let t = crate::search::CountingTimeout::new(k);
            let _ = e.search(&b, &tf, &t);
        });
        n += 1;
    }
    // one position occurring 300 times in the repetition table, then searched
    let _ = std::panic::catch_unwind(|| {
        set_case(|| json!({"property": "C07", "case": {"kind": "threefold-300"}}).to_string());
        let mut n = 0u64;
        let mut tf = ThreeFold::new();
        let mut b = chess_movegen::Board::standard();
        let cycle = ["g1f3", "g8f6", "f3g1", "f6g8"];
        for i in 0..1200 {
            let m = real_mv(refchess::Mv::parse(cycle[i % 4]).unwrap());
            assert!(b.move_mut(m));
            let _ = tf.add(b);
            n += 1;
        }
        let _ = tf.get(&b);
        let mut e = Engine::default();
        let t = crate::search::CountingTimeout::new(2000);
        let _ = e.search(&b, &tf, &t);
        let _ = format!("{tf:?}").len();
        let _ = n;
    });
    n + 1200
}

/// one board assembled through the builder with the given clocks, driven through the safe API
pub fn builder_clock_case(rp: &refchess::Position, half: u16, full: u16) -> u64 {
    use chess_engine::{Engine, ThreeFold};
    let mut bld = chess_movegen::Board::builder();
    bld.turn(real_color(rp.turn));
    bld.half_move_clock(half);
    bld.full_move_clock(full);
    for s in 0..64u8 {
        if let Some((c, p)) = rp.at(s) {
            let _ = bld.place(pos(s), real_color(c), real_piece(p));
        }
    }
    let Ok(b) = bld.build() else { return 0 };
    let mut n = crate::fenfuzz::exercise(&b, 2);
    let mut e = Engine::default();
    let tf = ThreeFold::new();
    let t = crate::search::CountingTimeout::new(300);
    let _ = e.search(&b, &tf, &t);
    n += 1;
    n
}

pub fn worker_main(cmd: &str, args: &Args) -> i32 {
    enter_worker_mode();
    crate::fenfuzz::EXERCISE.store(std::env::var("VCHECK_C06_LIGHT").is_err(), std::sync::atomic::Ordering::Relaxed);
    match cmd {
        "extremal" => {
            let n = extremal(args.tier);
            println!("WORKER-COVERAGE extremal {}", json!({"evaluations": n}));
            0
        }
        other => {
            let code = crate::dispatch(other, args);
            // 0 and 1 are both fine for a worker: value divergences belong to the owning property
            if code == 2 {
                2
            } else {
                0
            }
        }
    }
}

/// `worker-case <json>`: run one recorded case through the owning property's replayer
pub fn worker_case(js: &str) -> i32 {
    enter_worker_mode();
    crate::fenfuzz::EXERCISE.store(true, std::sync::atomic::Ordering::Relaxed);
    let v: Value = serde_json::from_str(js).unwrap_or_else(|e| machinery_failure(&format!("worker-case: {e}")));
    let prop = v["property"].as_str().unwrap_or("");
    if prop == "C07" {
        let _ = extremal(Tier::Quick);
        return 0;
    }
    let _ = crate::replay_dispatch(prop, &v["case"]);
    0
}
