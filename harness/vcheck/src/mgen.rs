//! C10: the move iterator honours its size and filtering contracts.
//! Deviation-bounded stateless exploration of operation sequences on the real `MoveGen`:
//! every run = generation entry point, then `next`s with 0, 1, 2 (thorough: 3) mutators placed
//! after every possible number of `next`s, run to exhaustion, all observers after every step,
//! compared with a set model.

use crate::common::*;
use crate::roots::*;
use crate::Args;
use chess_bitboard::BitBoard;
use chess_movegen::{Board, ChessMove};
use rayon::prelude::*;
use refchess::{Col, Mv, Pc, Position};
use serde_json::{json, Value};
use std::collections::BTreeSet;

#[derive(Clone, Copy, Debug, PartialEq, Eq)]
pub enum MaskSpec {
    /// exactly one square (legals_masked entry only)
    Single(u8),
    /// every square but one (legals_masked entry only)
    AllBut(u8),
    /// the four castling destinations c1 g1 c8 g8
    CastleDests,
    All,
    Nothing,
    Enemy,
    Empty,
    LowRanks,
    HighRanks,
    LeftFiles,
    EpSquare,
    PromoRanks,
    /// destinations of the smallest source square still in the model's remaining set
    FirstSourceDests,
    /// the destination of the smallest remaining move
    FirstDest,
}

pub const STATIC_MASKS: [MaskSpec; 9] = [
    MaskSpec::All,
    MaskSpec::Nothing,
    MaskSpec::Enemy,
    MaskSpec::Empty,
    MaskSpec::LowRanks,
    MaskSpec::HighRanks,
    MaskSpec::LeftFiles,
    MaskSpec::EpSquare,
    MaskSpec::PromoRanks,
];
pub const ALL_MASKS: [MaskSpec; 11] = [
    MaskSpec::All,
    MaskSpec::Nothing,
    MaskSpec::Enemy,
    MaskSpec::Empty,
    MaskSpec::LowRanks,
    MaskSpec::HighRanks,
    MaskSpec::LeftFiles,
    MaskSpec::EpSquare,
    MaskSpec::PromoRanks,
    MaskSpec::FirstSourceDests,
    MaskSpec::FirstDest,
];

#[derive(Clone, Copy, Debug, PartialEq, Eq)]
pub enum MoveSpec {
    First,
    Last,
    Ep,
    PromoQ,
    PromoR,
    PromoB,
    PromoN,
    NotInList,
    AlreadyYielded,
    /// source and destination of a remaining promotion, but no promotion piece: not a move of the list
    PromoSquaresNoPiece,
    /// a remaining non-promotion move with a promotion piece attached: not a move of the list
    PlainWithPiece,
    /// the middle one of the moves still to come
    Middle,
    /// a castling move still to come
    Castle,
    /// the push of a pawn that can also capture en passant (two entries for one source)
    PushOfEpPawn,
}
pub const ALL_MOVES: [MoveSpec; 14] = [
    MoveSpec::First,
    MoveSpec::Last,
    MoveSpec::Ep,
    MoveSpec::PromoQ,
    MoveSpec::PromoR,
    MoveSpec::PromoB,
    MoveSpec::PromoN,
    MoveSpec::NotInList,
    MoveSpec::AlreadyYielded,
    MoveSpec::PromoSquaresNoPiece,
    MoveSpec::PlainWithPiece,
    MoveSpec::Middle,
    MoveSpec::Castle,
    MoveSpec::PushOfEpPawn,
];

#[derive(Clone, Copy, Debug, PartialEq, Eq)]
pub enum Mutator {
    SetMask(MaskSpec),
    Remove(MaskSpec),
    RemoveMove(MoveSpec),
    /// continue on a clone; the original must be unaffected (drained at the end)
    CloneSwitch,
}

pub fn all_mutators() -> Vec<Mutator> {
    let mut v = vec![];
    for m in ALL_MASKS {
        v.push(Mutator::SetMask(m));
    }
    for m in ALL_MASKS {
        v.push(Mutator::Remove(m));
    }
    for m in ALL_MOVES {
        v.push(Mutator::RemoveMove(m));
    }
    v.push(Mutator::CloneSwitch);
    v
}

#[derive(Clone, Debug)]
pub struct Script {
    pub fen: String,
    pub entry: MaskSpec,
    /// (number of `next`s before the mutator, mutator)
    pub steps: Vec<(usize, Mutator)>,
}

#[derive(Clone)]
struct Model {
    all_legal: BTreeSet<Mv>,
    remaining: BTreeSet<Mv>,
    mask: u64,
    yielded: Vec<Mv>,
}

impl Model {
    fn visible(&self) -> Vec<Mv> {
        self.remaining.iter().copied().filter(|m| self.mask & (1u64 << m.to) != 0).collect()
    }
}

struct Ctx {
    rp: Position,
    board: Board,
    legal: Vec<Mv>,
}

fn occupancy(rp: &Position, c: Option<Col>) -> u64 {
    let mut m = 0u64;
    for s in 0..64u8 {
        if let Some((cc, _)) = rp.at(s) {
            if c.is_none() || c == Some(cc) {
                m |= 1u64 << s;
            }
        }
    }
    m
}

fn mask_value(spec: MaskSpec, ctx: &Ctx, model: Option<&Model>) -> u64 {
    match spec {
        MaskSpec::Single(s) => 1u64 << s,
        MaskSpec::AllBut(s) => !(1u64 << s),
        MaskSpec::CastleDests => (1u64 << 2) | (1u64 << 6) | (1u64 << 58) | (1u64 << 62),
        MaskSpec::All => !0,
        MaskSpec::Nothing => 0,
        MaskSpec::Enemy => occupancy(&ctx.rp, Some(ctx.rp.turn.flip())),
        MaskSpec::Empty => !occupancy(&ctx.rp, None),
        MaskSpec::LowRanks => 0x0000_0000_ffff_ffff,
        MaskSpec::HighRanks => 0xffff_ffff_0000_0000,
        MaskSpec::LeftFiles => 0x0f0f_0f0f_0f0f_0f0f,
        MaskSpec::EpSquare => ctx.rp.ep_square().map(|s| 1u64 << s).unwrap_or(1u64 << 27),
        MaskSpec::PromoRanks => 0xff00_0000_0000_00ff,
        MaskSpec::FirstSourceDests => match model.and_then(|m| m.remaining.iter().next().copied()) {
            Some(first) => model.unwrap().remaining.iter().filter(|m| m.from == first.from).fold(0u64, |a, m| a | 1u64 << m.to),
            None => 0,
        },
        MaskSpec::FirstDest => match model.and_then(|m| m.visible().first().copied()) {
            Some(first) => 1u64 << first.to,
            None => 1,
        },
    }
}

fn move_value(spec: MoveSpec, ctx: &Ctx, model: &Model) -> Mv {
    let vis = model.visible();
    let promo = |pc: Pc| -> Mv {
        match model.remaining.iter().find(|m| m.promo.is_some()).copied() {
            Some(m) => Mv::new(m.from, m.to, Some(pc)),
            None => Mv::new(8, 16, Some(pc)),
        }
    };
    match spec {
        MoveSpec::First => vis.first().copied().unwrap_or(Mv::new(0, 0, None)),
        MoveSpec::Last => vis.last().copied().unwrap_or(Mv::new(63, 63, None)),
        MoveSpec::Ep => ctx
            .legal
            .iter()
            .find(|m| ctx.rp.at(m.from).map(|x| x.1) == Some(Pc::P) && Some(m.to) == ctx.rp.ep_square())
            .copied()
            .unwrap_or(Mv::new(36, 43, None)),
        MoveSpec::PromoQ => promo(Pc::Q),
        MoveSpec::PromoR => promo(Pc::R),
        MoveSpec::PromoB => promo(Pc::B),
        MoveSpec::PromoN => promo(Pc::N),
        MoveSpec::NotInList => {
            // a triple that is not a legal move of this position
            for from in 0..64u8 {
                for to in 0..64u8 {
                    let m = Mv::new(from, to, None);
                    if from != to && !ctx.legal.contains(&m) && ctx.legal.iter().all(|l| !(l.from == from && l.to == to)) && ctx.legal.iter().any(|l| l.from == from) {
                        return m;
                    }
                }
            }
            Mv::new(0, 63, None)
        }
        MoveSpec::AlreadyYielded => model.yielded.first().copied().unwrap_or(Mv::new(1, 1, None)),
        MoveSpec::PromoSquaresNoPiece => match model.remaining.iter().find(|m| m.promo.is_some()).copied() {
            Some(m) => Mv::new(m.from, m.to, None),
            None => Mv::new(8, 16, None),
        },
        MoveSpec::PlainWithPiece => match vis.iter().find(|m| m.promo.is_none()).copied() {
            Some(m) => Mv::new(m.from, m.to, Some(Pc::Q)),
            None => Mv::new(12, 28, Some(Pc::Q)),
        },
        MoveSpec::Middle => vis.get(vis.len() / 2).copied().unwrap_or(Mv::new(2, 2, None)),
        MoveSpec::Castle => vis
            .iter()
            .find(|m| ctx.rp.at(m.from).map(|x| x.1) == Some(Pc::K) && (m.from % 8).abs_diff(m.to % 8) == 2)
            .copied()
            .unwrap_or(Mv::new(4, 6, None)),
        MoveSpec::PushOfEpPawn => {
            let ep_pawns: Vec<u8> = ctx.legal.iter().filter(|m| ctx.rp.at(m.from).map(|x| x.1) == Some(Pc::P) && Some(m.to) == ctx.rp.ep_square()).map(|m| m.from).collect();
            vis.iter().find(|m| ep_pawns.contains(&m.from) && Some(m.to) != ctx.rp.ep_square()).copied().unwrap_or(Mv::new(3, 3, None))
        }
    }
}

#[derive(Clone, Debug)]
pub struct Failure {
    pub what: String,
    pub step: usize,
    pub detail: String,
}

/// semantics switch for the known finding F14: the iterator stores one destination set per
/// source, so `remove_move` of one promotion removes its three siblings too
#[derive(Clone, Copy, PartialEq, Eq)]
enum RemoveMoveSemantics {
    Exact,
    WholePromotionGroup,
}

struct RunInfo {
    failure: Option<Failure>,
    steps: u64,
    /// a mutator was applied while 1-3 promotions of the current (source, dest) had been yielded
    mutator_inside_promotion_run: bool,
    /// a promotion move was passed to remove_move
    removed_a_promotion: bool,
}

/// `MoveGen` cannot be named from outside its crate (its module is private), so the inherent
/// operations are passed in as function pointers whose type parameter is inferred at the call
/// site from `board.legals()`.
struct Ops<T> {
    len: fn(&T) -> usize,
    is_empty: fn(&T) -> bool,
    set_mask: fn(&mut T, BitBoard),
    remove: fn(&mut T, BitBoard),
    remove_move: fn(&mut T, ChessMove) -> bool,
}

fn observers<T: ExactSizeIterator<Item = ChessMove> + Clone>(ops: &Ops<T>, it: &T, model: &Model, step: usize, after: &str) -> Option<Failure> {
    let want = model.visible().len();
    let got = (ops.len)(it);
    if got != want {
        return Some(Failure { what: format!("len-wrong:{after}"), step, detail: format!("len() = {got}, {want} moves will still be yielded") });
    }
    if (ops.is_empty)(it) != (want == 0) {
        return Some(Failure { what: format!("is_empty-wrong:{after}"), step, detail: format!("is_empty() = {}, {want} moves remain", (ops.is_empty)(it)) });
    }
    let sh = it.size_hint();
    if sh != (want, Some(want)) {
        return Some(Failure { what: format!("size_hint-wrong:{after}"), step, detail: format!("size_hint() = {sh:?}, {want} moves remain") });
    }
    if ExactSizeIterator::len(it) != want {
        return Some(Failure { what: format!("exact-size-len-wrong:{after}"), step, detail: format!("{want} moves remain") });
    }
    // the specialised Iterator::count of a copy
    let c = it.clone().count();
    if c != want {
        return Some(Failure { what: format!("count-wrong:{after}"), step, detail: format!("clone().count() = {c}, {want} moves remain") });
    }
    None
}

fn do_next<T: Iterator<Item = ChessMove>>(it: &mut T, model: &mut Model, step: usize, after: &str) -> (Option<Failure>, bool) {
    let got = it.next().map(ref_mv);
    let vis = model.visible();
    match got {
        None => {
            if !vis.is_empty() {
                return (
                    Some(Failure { what: format!("next-ends-early:{after}"), step, detail: format!("next() = None but {} moves remain under the mask, e.g. {}", vis.len(), vis[0].uci()) }),
                    false,
                );
            }
            (None, false)
        }
        Some(m) => {
            if !model.remaining.contains(&m) {
                let why = if model.yielded.contains(&m) { "yielded-twice" } else { "not-a-remaining-move" };
                let legal = if model.all_legal.contains(&m) { "" } else { " (ILLEGAL in this position)" };
                return (Some(Failure { what: format!("next-{why}:{after}"), step, detail: format!("next() = {} which is not in the remaining set{legal}", m.uci()) }), false);
            }
            if model.mask & (1u64 << m.to) == 0 {
                return (Some(Failure { what: format!("next-outside-mask:{after}"), step, detail: format!("next() = {} whose destination is outside the mask", m.uci()) }), false);
            }
            model.remaining.remove(&m);
            model.yielded.push(m);
            (None, true)
        }
    }
}

fn promo_run_open(model: &Model) -> bool {
    // 1..3 promotions of the last yielded (source, dest) have been yielded
    match model.yielded.last() {
        Some(last) if last.promo.is_some() => {
            let n = model.yielded.iter().filter(|m| m.from == last.from && m.to == last.to && m.promo.is_some()).count();
            (1..=3).contains(&n)
        }
        _ => false,
    }
}

fn execute(ctx: &Ctx, script: &Script, sem: RemoveMoveSemantics) -> RunInfo {
    let entry_mask = mask_value(script.entry, ctx, None);
    let it = if script.entry == MaskSpec::All { ctx.board.legals() } else { ctx.board.legals_masked(BitBoard::from_u64(entry_mask)) };
    execute_on(
        ctx,
        script,
        sem,
        it,
        Ops { len: |i| i.len(), is_empty: |i| i.is_empty(), set_mask: |i, m| { let _ = i.set_mask(m); }, remove: |i, m| { let _ = i.remove(m); }, remove_move: |i, m| i.remove_move(m) },
    )
}

fn execute_on<T: ExactSizeIterator<Item = ChessMove> + Clone>(ctx: &Ctx, script: &Script, sem: RemoveMoveSemantics, mut it: T, ops: Ops<T>) -> RunInfo {
    let mut info = RunInfo { failure: None, steps: 0, mutator_inside_promotion_run: false, removed_a_promotion: false };
    let entry_mask = mask_value(script.entry, ctx, None);
    let mut model = Model {
        all_legal: ctx.legal.iter().copied().collect(),
        remaining: ctx.legal.iter().copied().filter(|m| entry_mask & (1u64 << m.to) != 0).collect(),
        mask: entry_mask,
        yielded: vec![],
    };
    let mut step = 0usize;
    let mut after = if script.entry == MaskSpec::All { "fresh".to_string() } else { "legals_masked".to_string() };
    let mut originals: Vec<(T, Model)> = vec![];
    macro_rules! check {
        ($e:expr) => {
            if let Some(f) = $e {
                info.failure = Some(f);
                info.steps = step as u64;
                return info;
            }
        };
    }
    check!(observers(&ops, &it, &model, step, &after));
    for &(nexts, mutator) in &script.steps {
        for _ in 0..nexts {
            step += 1;
            let (f, _) = do_next(&mut it, &mut model, step, &after);
            check!(f);
            check!(observers(&ops, &it, &model, step, &after));
        }
        step += 1;
        if promo_run_open(&model) && mutator != Mutator::CloneSwitch {
            info.mutator_inside_promotion_run = true;
        }
        match mutator {
            Mutator::SetMask(ms) => {
                let m = mask_value(ms, ctx, Some(&model));
                (ops.set_mask)(&mut it, BitBoard::from_u64(m));
                model.mask = m;
                after = "set_mask".into();
            }
            Mutator::Remove(ms) => {
                let m = mask_value(ms, ctx, Some(&model));
                (ops.remove)(&mut it, BitBoard::from_u64(m));
                model.remaining.retain(|x| m & (1u64 << x.to) == 0);
                after = "remove".into();
            }
            Mutator::RemoveMove(spec) => {
                let x = move_value(spec, ctx, &model);
                let _ = (ops.remove_move)(&mut it, real_mv(x));
                if x.promo.is_some() {
                    info.removed_a_promotion = true;
                }
                match sem {
                    RemoveMoveSemantics::Exact => {
                        model.remaining.remove(&x);
                    }
                    RemoveMoveSemantics::WholePromotionGroup => {
                        if x.promo.is_some() {
                            // (a promotion piece on a plain move names no entry at all)
                            model.remaining.retain(|y| !(y.from == x.from && y.to == x.to && y.promo.is_some()));
                        } else {
                            model.remaining.remove(&x);
                        }
                    }
                }
                after = "remove_move".into();
            }
            Mutator::CloneSwitch => {
                let c = it.clone();
                originals.push((std::mem::replace(&mut it, c), model.clone()));
                after = "clone".into();
            }
        }
        check!(observers(&ops, &it, &model, step, &after));
    }
    // drain
    let cap = ctx.legal.len() + 2;
    for _ in 0..cap {
        step += 1;
        let (f, yielded) = do_next(&mut it, &mut model, step, &after);
        check!(f);
        check!(observers(&ops, &it, &model, step, &after));
        if !yielded {
            break;
        }
    }
    if it.next().is_some() {
        check!(Some(Failure { what: format!("iterator-does-not-end:{after}"), step, detail: "more moves than the position has".into() }));
    }
    // final widening: "iterating under successive masks that together cover the board yields
    // every remaining legal move exactly once" - whatever is still in the model must come out now
    if model.mask != !0 {
        step += 1;
        if promo_run_open(&model) {
            info.mutator_inside_promotion_run = true;
        }
        (ops.set_mask)(&mut it, BitBoard::from_u64(!0));
        model.mask = !0;
        after = "final-widening".into();
        check!(observers(&ops, &it, &model, step, &after));
        for _ in 0..cap {
            step += 1;
            let (f, yielded) = do_next(&mut it, &mut model, step, &after);
            check!(f);
            check!(observers(&ops, &it, &model, step, &after));
            if !yielded {
                break;
            }
        }
    }
    // `count` agrees with len on a clone taken at the end (both 0) and originals are unaffected
    for (mut orig, mut m) in originals {
        step += 1;
        check!(observers(&ops, &orig, &m, step, "original-after-clone-was-driven"));
        if orig.clone().count() != m.visible().len() {
            check!(Some(Failure { what: "count-wrong:original-after-clone-was-driven".into(), step, detail: String::new() }));
        }
        for _ in 0..cap {
            let (f, y) = do_next(&mut orig, &mut m, step, "original-after-clone-was-driven");
            check!(f);
            if !y {
                break;
            }
        }
    }
    info.steps = step as u64;
    info
}

/// run one script; classify a failure (known-finding signatures are executable predicates)
pub fn run_script(ctx_fen: &str, script: &Script) -> (u64, Vec<Divergence>) {
    let ctx = make_ctx(ctx_fen);
    run_script_ctx(&ctx, script)
}

fn make_ctx(fen: &str) -> Ctx {
    let rp = Position::from_fen(fen).unwrap_or_else(|e| machinery_failure(&format!("C10 catalogue: {e}")));
    let board = parse_board(fen).unwrap_or_else(|e| machinery_failure(&format!("C10 catalogue position rejected: {fen}: {e}")));
    let legal = rp.legal_moves();
    Ctx { rp, board, legal }
}

fn run_script_ctx(ctx: &Ctx, script: &Script) -> (u64, Vec<Divergence>) {
    set_case(|| json!({"property": "C10", "case": script_json(script)}).to_string());
    let r = std::panic::catch_unwind(std::panic::AssertUnwindSafe(|| execute(ctx, script, RemoveMoveSemantics::Exact)));
    let info = match r {
        Ok(i) => i,
        Err(_) => return (0, vec![Divergence::new("iterator-panics", format!("{script:?}"))]),
    };
    let Some(f) = info.failure else { return (info.steps, vec![]) };
    let detail = format!("{} entry={:?} script={:?} step {}: {}", script.fen, script.entry, script.steps, f.step, f.detail);
    // never suppressed by any known finding: a yielded move that is not legal in the position at all
    if f.what.starts_with("next-not-a-remaining-move") && f.detail.contains("ILLEGAL") {
        return (info.steps, vec![Divergence::new("next-yields-a-move-that-is-not-legal", detail)]);
    }
    // F15: a mutator interrupted a promotion run (cursor survives mask / remove changes)
    if info.mutator_inside_promotion_run {
        return (info.steps, vec![Divergence::new("mutator-inside-promotion-run", detail)]);
    }
    // F14: remove_move(promotion) removes the whole (source, dest) group: the run is fully
    // explained by that alternative semantics (possibly followed by F15 later in the run)
    if info.removed_a_promotion {
        let alt = std::panic::catch_unwind(std::panic::AssertUnwindSafe(|| execute(ctx, script, RemoveMoveSemantics::WholePromotionGroup)));
        if let Ok(a) = alt {
            let illegal = a.failure.as_ref().map(|f| f.detail.contains("ILLEGAL")).unwrap_or(false);
            if a.failure.is_none() || (a.mutator_inside_promotion_run && !illegal) {
                return (info.steps, vec![Divergence::new("remove_move-of-promotion-removes-sibling-promotions", detail)]);
            }
        }
    }
    (info.steps, vec![Divergence::new(f.what, detail)])
}

pub fn c10_positions(tier: Tier) -> Vec<String> {
    let mut v: Vec<String> = vec![START_FEN.to_string()];
    for s in load_scenarios() {
        v.push(s.fen);
    }
    v.extend(
        [
            "8/PP5k/8/8/8/8/8/K7 w - - 0 1",
            "8/P6k/8/8/8/8/8/K7 w - - 0 1",
            "1n1r3k/2P5/8/8/8/8/8/K7 w - - 0 1",
            "4k3/8/8/3pP3/8/8/8/4K2N w - d6 0 1",
            "4k3/8/8/3pP3/8/8/8/4K3 w - d6 0 1",
            "4k3/8/8/2PpP3/8/8/8/4K3 w - d6 0 1",
            "r3k2r/8/8/8/8/8/8/R3K2R w KQkq - 0 1",
            "8/8/1k6/8/2pP4/8/5BK1/8 b - d3 0 1",
            "3k4/8/8/8/8/8/8/R3K3 w Q - 0 1",
            "2K2r2/4P3/8/8/8/8/8/3k4 w - - 0 1",
            "8/8/8/8/8/k7/p1K5/8 b - - 0 1",
            "n1n5/PPPk4/8/8/8/8/4Kppp/5N1N b - - 0 1",
        ]
        .iter()
        .map(|s| s.to_string()),
    );
    if tier == Tier::Thorough {
        v.push(PERFT_FENS[0].to_string());
        v.push(PERFT_FENS[27].to_string());
        v.push(PERFT_FENS[30].to_string());
        v.push(PERFT_FENS[31].to_string());
    }
    // both colours
    let mut out = vec![];
    for f in v {
        let p = Position::from_fen(&f).unwrap_or_else(|e| machinery_failure(&format!("{f}: {e}")));
        for q in [p.clone(), p.mirror()] {
            if q.valid_root().is_ok() {
                out.push(q.to_fen());
            }
        }
    }
    out.sort();
    out.dedup();
    out
}

fn scripts_for(fen: &str, n_moves: usize, tier: Tier) -> Vec<Script> {
    let muts = all_mutators();
    let mut v = vec![];
    // entry points x (0 or 1 mutator)
    for entry in STATIC_MASKS {
        v.push(Script { fen: fen.into(), entry, steps: vec![] });
        for a in 0..=n_moves {
            for &m in &muts {
                v.push(Script { fen: fen.into(), entry, steps: vec![(a, m)] });
            }
        }
    }
    // every single-square generation mask and its complement (0 mutators; closed by the final widening)
    for s in 0..64u8 {
        v.push(Script { fen: fen.into(), entry: MaskSpec::Single(s), steps: vec![] });
        v.push(Script { fen: fen.into(), entry: MaskSpec::AllBut(s), steps: vec![] });
    }
    v.push(Script { fen: fen.into(), entry: MaskSpec::CastleDests, steps: vec![] });
    // legals() x 2 mutators at every pair of points
    for a in 0..=n_moves {
        for b in 0..=(n_moves - a) {
            for &m1 in &muts {
                for &m2 in &muts {
                    v.push(Script { fen: fen.into(), entry: MaskSpec::All, steps: vec![(a, m1), (b, m2)] });
                }
            }
        }
    }
    if tier == Tier::Thorough && n_moves <= 12 {
        for a in 0..=n_moves {
            for b in 0..=(n_moves - a) {
                for c in 0..=(n_moves - a - b) {
                    for &m1 in &muts {
                        for &m2 in &muts {
                            for &m3 in &muts {
                                v.push(Script { fen: fen.into(), entry: MaskSpec::All, steps: vec![(a, m1), (b, m2), (c, m3)] });
                            }
                        }
                    }
                }
            }
        }
    }
    v
}

fn script_json(s: &Script) -> Value {
    json!({"kind": "movegen-script", "fen": s.fen, "entry": format!("{:?}", s.entry), "steps": s.steps.iter().map(|(n, m)| json!([n, format!("{m:?}")])).collect::<Vec<_>>()})
}

fn parse_mask(s: &str) -> MaskSpec {
    if s == "CastleDests" {
        return MaskSpec::CastleDests;
    }
    for q in 0..64u8 {
        if format!("{:?}", MaskSpec::Single(q)) == s {
            return MaskSpec::Single(q);
        }
        if format!("{:?}", MaskSpec::AllBut(q)) == s {
            return MaskSpec::AllBut(q);
        }
    }
    ALL_MASKS.iter().copied().find(|m| format!("{m:?}") == s).unwrap_or_else(|| machinery_failure("bad mask spec"))
}
fn parse_mutator(s: &str) -> Mutator {
    all_mutators().into_iter().find(|m| format!("{m:?}") == s).unwrap_or_else(|| machinery_failure("bad mutator"))
}

/// The third public constructor of the iterator, `Board::king_legals(colour)`: for either colour the
/// size contract holds at every step, with and without a mask, and successive masks that cover the
/// board yield every move exactly once.
fn king_legals_case(fen: &str) -> (u64, Vec<Divergence>) {
    set_case(|| json!({"property": "C10", "case": {"kind": "king-legals", "fen": fen}}).to_string());
    let ctx = make_ctx(fen);
    let mut d = vec![];
    let mut steps = 0u64;
    let r = std::panic::catch_unwind(std::panic::AssertUnwindSafe(|| {
        let mut d = vec![];
        let mut steps = 0u64;
        for col in [Col::W, Col::B] {
            let own = col == ctx.rp.turn;
            let c = real_color(col);
            // drains an iterator, checking the size contract before every step
            let drain = |it: &mut dyn ExactSizeIterator<Item = ChessMove>, what: &str, d: &mut Vec<Divergence>| -> Vec<Mv> {
                let mut out = vec![];
                loop {
                    let before = it.len();
                    let sh = it.size_hint();
                    if sh != (before, Some(before)) {
                        d.push(Divergence::new("king_legals-size_hint-wrong", format!("{fen} king_legals({col:?}) {what}: size_hint {sh:?} but len {before}")));
                    }
                    match it.next() {
                        Some(m) => {
                            if before == 0 {
                                d.push(Divergence::new("king_legals-len-wrong", format!("{fen} king_legals({col:?}) {what}: len() = 0 but a move was yielded")));
                            }
                            out.push(ref_mv(m));
                            if it.len() + 1 != before && before != 0 {
                                d.push(Divergence::new("king_legals-len-wrong", format!("{fen} king_legals({col:?}) {what}: len() went from {before} to {} over one step", it.len())));
                            }
                        }
                        None => {
                            if before != 0 {
                                d.push(Divergence::new("king_legals-len-wrong", format!("{fen} king_legals({col:?}) {what}: len() = {before} but the iterator is exhausted")));
                            }
                            break;
                        }
                    }
                    if out.len() > 64 {
                        break;
                    }
                }
                out
            };
            let mut it = ctx.board.king_legals(c);
            let inherent = (it.len(), it.is_empty());
            if inherent.1 != (inherent.0 == 0) || it.clone().count() != inherent.0 {
                d.push(Divergence::new("king_legals-len-wrong", format!("{fen} king_legals({col:?}): len {} is_empty {} count {}", inherent.0, inherent.1, it.clone().count())));
            }
            let all = drain(&mut it, "unmasked", &mut d);
            steps += all.len() as u64 + 1;
            let set: BTreeSet<Mv> = all.iter().copied().collect();
            if set.len() != all.len() {
                d.push(Divergence::new("king_legals-yields-a-move-twice", format!("{fen} king_legals({col:?})")));
            }
            // (WHICH moves a king generator yields for either colour is not part of C10 - its only caller
            // is the engine's mobility term - so only the size and mask contracts are checked)
            let _ = own;
            // successive masks covering the board: every move exactly once
            for (m1, name) in [(occupancy(&ctx.rp, Some(col.flip())), "captures-then-rest"), (0x0f0f_0f0f_0f0f_0f0fu64, "left-then-right"), (0u64, "nothing-then-all")] {
                let mut it = ctx.board.king_legals(c);
                it.set_mask(BitBoard::from_u64(m1));
                let first = drain(&mut it, name, &mut d);
                if first.iter().any(|m| m1 & (1u64 << m.to) == 0) {
                    d.push(Divergence::new("king_legals-yields-outside-mask", format!("{fen} king_legals({col:?}) {name}")));
                }
                it.set_mask(BitBoard::from_u64(!0));
                let rest = drain(&mut it, name, &mut d);
                steps += (first.len() + rest.len()) as u64 + 2;
                let mut both: Vec<Mv> = first.iter().chain(rest.iter()).copied().collect();
                both.sort();
                let mut want: Vec<Mv> = all.clone();
                want.sort();
                if both != want {
                    d.push(Divergence::new("king_legals-masks-do-not-partition", format!("{fen} king_legals({col:?}) {name}: {:?} then {:?}, unmasked {:?}", first.iter().map(|m| m.uci()).collect::<Vec<_>>(), rest.iter().map(|m| m.uci()).collect::<Vec<_>>(), all.iter().map(|m| m.uci()).collect::<Vec<_>>())));
                }
            }
        }
        (steps, d)
    }));
    match r {
        Ok((n, dd)) => {
            steps += n;
            d.extend(dd);
        }
        Err(_) => d.push(Divergence::new("iterator-panics", format!("{fen} king_legals"))),
    }
    (steps, d)
}

pub fn replay_c10(case: &Value) -> Vec<Divergence> {
    silence_panics();
    if case["kind"].as_str() == Some("king-legals") {
        return king_legals_case(case["fen"].as_str().unwrap()).1;
    }
    let script = Script {
        fen: case["fen"].as_str().unwrap().to_string(),
        entry: parse_mask(case["entry"].as_str().unwrap()),
        steps: case["steps"].as_array().unwrap().iter().map(|x| (x[0].as_u64().unwrap() as usize, parse_mutator(x[1].as_str().unwrap()))).collect(),
    };
    run_script(&script.fen, &script).1
}

pub fn run_c10(args: &Args) -> i32 {
    let report = Report::new("C10", args.tier, args.seed, "model_checking");
    silence_panics();
    let mut positions = c10_positions(args.tier);
    if reduced() {
        positions = positions.into_iter().step_by(7).collect();
    }
    let mut total_runs = 0u64;
    let mut total_steps = 0u64;
    let mut nontrivial_runs = 0u64;
    let mut per_pos = vec![];
    let mut sample = None;
    for fen in &positions {
        let ctx = make_ctx(fen);
        let scripts = scripts_for(fen, ctx.legal.len(), args.tier);
        let res: Vec<(u64, Vec<Divergence>)> = scripts.par_iter().map(|s| run_script_ctx(&ctx, s)).collect();
        for (s, (steps, d)) in scripts.iter().zip(res.iter()) {
            total_steps += steps;
            if !d.is_empty() {
                report.record(d, || script_json(s));
            }
        }
        let (ks, kd) = king_legals_case(fen);
        total_steps += ks;
        total_runs += 8;
        report.record(&kd, || json!({"kind": "king-legals", "fen": fen}));
        total_runs += scripts.len() as u64;
        nontrivial_runs += scripts.iter().filter(|s| !s.steps.is_empty()).count() as u64;
        per_pos.push(json!({"fen": fen, "moves": ctx.legal.len(), "runs": scripts.len()}));
        if sample.is_none() || (args.seed as usize % positions.len()) == per_pos.len() - 1 {
            let i = (args.seed as usize * 131 + 77) % scripts.len();
            sample = Some(script_json(&scripts[i]));
        }
    }
    restore_panics();
    report.finish(
        json!({
            "states": total_steps,
            "transitions": total_steps,
            "traces_validated_against_impl": total_runs,
            "evaluations": total_runs,
            "distinct_nontrivial": nontrivial_runs,
            "rule": "for every catalogue position (both colours): each of 9 generation entry points (legals, legals_masked(m)) with 0 or 1 mutator at every point, legals_masked of every single square, of every all-but-one-square mask and of the castling destinations, and legals() with every ordered pair of mutators at every pair of points (thorough: every triple on positions with <= 12 moves); every run ends with a final set_mask(all) + drain when the mask is not already full; 37 mutator instances (set_mask x 11 masks, remove x 11 masks, remove_move x 14 move choices incl. non-members that share source and destination with a member, clone-and-continue); for every position also `king_legals(colour)` of both colours, unmasked and under three two-step mask covers (size contract at every step, no move twice, masks partition the unmasked yield); every run is driven to exhaustion on the real MoveGen and len / is_empty / size_hint / ExactSizeIterator::len are compared with the set model after every step. states = iterator steps executed (each step is checked); non-trivial = runs containing at least one mutator.",
            "positions": positions.len(),
            "mutator_instances": all_mutators().len(),
            "per_position": per_pos,
            "exhaustive": true,
            "bound": if args.tier == Tier::Quick { "<= 2 mutators" } else { "<= 2 mutators everywhere, 3 on positions with <= 12 moves" },
            "samples": [sample],
        }),
        &["set model: remaining legal moves (reference move generator) and a destination mask; order of iteration is unspecified", "the return value of remove_move is not part of the property and is not checked"],
    )
}
