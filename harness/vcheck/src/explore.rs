//! E1: explicit-state BFS over chess positions.  Every transition calls the real `move_new` and
//! the reference `make` in lock-step; states are deduplicated on the position identity (plus the
//! half-move clock once it is >= 90, so behaviour around the 100-ply rule is never merged);
//! parent pointers give a replayable move list for every state.
//! E2: complete enumeration of small-material families, each position checked at the root and
//! one ply below it.

use crate::common::*;
use crate::oracles::*;
use crate::roots::Root;
use chess_movegen::Board;
use rayon::prelude::*;
use refchess::{Identity, Mv, Position};
use serde_json::{json, Value};
use std::collections::HashMap;

#[derive(Default, Clone, Debug)]
pub struct Totals {
    pub states: u64,
    pub transitions: u64,
    pub transposition_arrivals: u64,
    pub ep_available: u64,
    pub in_check: u64,
    pub double_check: u64,
    pub legality_filter_bites: u64,
    pub castling_available: u64,
    pub promotion_available: u64,
    pub terminal: u64,
    pub nontrivial: u64,
    pub is_legal_calls: u64,
    pub illegal_offers: u64,
    pub full_sweeps: u64,
    pub max_depth: u32,
    pub max_moves: usize,
    pub roots: u64,
    pub family_positions: u64,
    pub family_rejected_invalid: u64,
}

impl Totals {
    fn add_state(&mut self, st: &StateStats) {
        self.states += 1;
        self.ep_available += st.ep_available as u64;
        self.in_check += st.in_check as u64;
        self.double_check += st.double_check as u64;
        self.legality_filter_bites += st.legality_filter_bites as u64;
        self.castling_available += st.castling_available as u64;
        self.promotion_available += st.promotion_available as u64;
        self.terminal += st.terminal as u64;
        self.nontrivial += st.nontrivial() as u64;
        self.is_legal_calls += st.is_legal_calls;
        self.illegal_offers += st.illegal_offers;
        self.max_moves = self.max_moves.max(st.moves);
    }
    pub fn merge(&mut self, o: &Totals) {
        self.states += o.states;
        self.transitions += o.transitions;
        self.transposition_arrivals += o.transposition_arrivals;
        self.ep_available += o.ep_available;
        self.in_check += o.in_check;
        self.double_check += o.double_check;
        self.legality_filter_bites += o.legality_filter_bites;
        self.castling_available += o.castling_available;
        self.promotion_available += o.promotion_available;
        self.terminal += o.terminal;
        self.nontrivial += o.nontrivial;
        self.is_legal_calls += o.is_legal_calls;
        self.illegal_offers += o.illegal_offers;
        self.full_sweeps += o.full_sweeps;
        self.max_depth = self.max_depth.max(o.max_depth);
        self.max_moves = self.max_moves.max(o.max_moves);
        self.roots += o.roots;
        self.family_positions += o.family_positions;
        self.family_rejected_invalid += o.family_rejected_invalid;
    }
    pub fn to_json(&self) -> Value {
        json!({
            "states": self.states, "transitions": self.transitions,
            "transposition_arrivals": self.transposition_arrivals,
            "states_with_ep_capture_available": self.ep_available,
            "states_in_check": self.in_check, "states_in_double_check": self.double_check,
            "states_where_legality_filter_rejects_a_pseudo_legal_move": self.legality_filter_bites,
            "states_with_castling_available": self.castling_available,
            "states_with_promotion_available": self.promotion_available,
            "terminal_states": self.terminal,
            "is_legal_calls": self.is_legal_calls, "illegal_triples_offered": self.illegal_offers,
            "full_is_legal_sweeps": self.full_sweeps,
            "max_depth": self.max_depth, "max_moves_in_a_state": self.max_moves,
            "roots": self.roots, "family_positions": self.family_positions,
            "family_candidates_rejected_as_invalid": self.family_rejected_invalid,
        })
    }
}

struct Node {
    rp: Position,
    board: Board,
    idx: u32,
}

struct Rec {
    parent: u32,
    mv: Mv,
}

struct Child {
    mv: Mv,
    rp: Position,
    board: Option<Board>,
}

struct Expanded {
    divs: Vec<Divergence>,
    stats: StateStats,
    children: Vec<Child>,
    transitions: u64,
}

type Key = (Identity, u8);

fn key_of(p: &Position) -> Key {
    (p.identity(), if p.half >= 90 { (p.half.min(250)) as u8 } else { 0 })
}

// everything the selected properties want to know about one state
thread_local! {
    /// a board that "held another position": Kiwipete after a few moves, odd clocks
    static DIRTY_BUFFER: Board = parse_board("r3k2r/p1ppqpb1/bn2pnp1/3PN3/1p2P3/2N2Q1p/PPPBBPPP/R3K2R b KQkq e3 37 41").unwrap();
}

pub fn check_state(rp: &Position, board: &Board, played: bool, props: &Props, want_children: bool, special_only: bool) -> (Vec<Divergence>, StateStats, Vec<(Mv, Position, Option<Board>)>, u64) {
    set_case(|| json!({"property": "C01", "case": {"kind": "state", "root": rp.to_fen(), "moves": []}}).to_string());
    let legal = rp.legal_moves();
    let mut st = classify(rp, &legal);
    st.legality_filter_bites = rp.pseudo_legal().len() != legal.len();
    let mut d = vec![];
    if props.c01 && !props.skip_state_oracles {
        d.extend(c01_state(rp, board, &legal, props, &mut st));
    }
    if props.c03 && !props.skip_state_oracles {
        d.extend(c03_state(rp, board, played));
    }
    if props.c04 && !props.skip_state_oracles {
        d.extend(c04_state(rp, board, played));
    }
    if props.c05 && !props.skip_state_oracles {
        d.extend(c05_state(rp, board));
    }
    let mut children = vec![];
    let mut transitions = 0;
    if props.c02 && !props.skip_state_oracles {
        // the checked operations must refuse the near misses in EVERY state, also the last level and
        // the states reached one ply below a family member (stale check/pin state shows up here)
        d.extend(c02_refusals(rp, board, &legal, props.full_sweep && want_children, &mut st));
    }
    if want_children {
        for &m in &legal {
            if special_only && !is_special(rp, m) {
                continue;
            }
            if props.double_push_only && !(rp.at(m.from).map(|x| x.1) == Some(Pc::P) && (refchess::rank_of(m.from) - refchess::rank_of(m.to)).abs() == 2) {
                continue;
            }
            let crp = rp.make(m);
            transitions += 1;
            let cb = if props.c02 {
                let (cb, dd) = c02_transition(rp, board, m, &crp, props.deep || is_rule_special(rp, m));
                d.extend(dd);
                cb
            } else {
                board.move_new(real_mv(m))
            };
            // a wrong successor must not cascade: continue from the rebuilt twin when it differs
            if props.c03 || props.c04 || props.c05 {
                // the same successor written by `move_into` into a buffer that held another position
                // (perft-style reuse): it must be indistinguishable from the one `move_new` returns
                if let Some(c) = &cb {
                    let mut used = DIRTY_BUFFER.with(|x| *x);
                    if board.move_into(real_mv(m), &mut used) {
                        let same = used == *c && used.zobrist() == c.zobrist() && used.half_move_clock() == c.half_move_clock() && used.full_move_clock() == c.full_move_clock() && used.in_check() == c.in_check() && used.legals().eq(c.legals());
                        if !same {
                            let what = if used.zobrist() != c.zobrist() { "hash" } else if used.half_move_clock() != c.half_move_clock() || used.full_move_clock() != c.full_move_clock() { "clocks" } else { "board-or-derived-state" };
                            d.push(Divergence::new(
                                format!("stale:move_into-a-used-buffer-differs:{what}"),
                                format!("{} {}: move_into into a buffer that held another position gives a different board than move_new", rp.to_fen(), m.uci()),
                            ));
                        }
                    }
                }
            }
            let twin = parse_board(&crp.to_fen()).ok();
            if props.c01 {
                if let (Some(c), Some(t)) = (&cb, &twin) {
                    if c != t {
                        // the position REACHED BY PLAY is what C01 quantifies over: check the generator on
                        // the played board itself before the exploration continues from the rebuilt twin
                        let cl = crp.legal_moves();
                        let mut cst = StateStats::default();
                        let mut p1 = *props;
                        p1.full_sweep = false;
                        for x in c01_state(&crp, c, &cl, &p1, &mut cst) {
                            d.push(Divergence::new(format!("on-played-board:{}", x.class), format!("after {} from {}: {}", m.uci(), rp.to_fen(), x.detail)));
                        }
                    }
                }
            }
            if props.c03 {
                if let (Some(c), Some(t)) = (&cb, &twin) {
                    if c != t {
                        d.push(Divergence::new(
                            "stale:played-successor-not-equal-to-rebuilt",
                            format!("{} after {}: the board reached by the move differs (placement, side, rights or marker) from parse('{}'); it writes '{}'", rp.to_fen(), m.uci(), crp.to_fen(), c),
                        ));
                    }
                }
            }
            let cb = match (cb, twin) {
                (Some(c), Some(t)) => Some(if c == t || props.carry_played { c } else { t }),
                (None, t) => t,
                (c, None) => c,
            };
            children.push((m, crp, cb));
        }
    }
    (d, st, children, transitions)
}

pub struct E1Config {
    pub depth: u32,
    pub props: Props,
    /// full is_legal / refusal sweep on states of depth <= 2 and on every `stride`-th state
    pub sweep_stride: u64,
    /// only moves whose destination lies in this set are followed (every transition is still
    /// checked): lets a small move alphabet be explored to a large depth
    pub dest_filter: Option<u64>,
}

/// path (as uci strings) from the root to state `idx`
fn path_to(recs: &[Rec], mut idx: u32) -> Vec<String> {
    let mut out = vec![];
    while recs[idx as usize].parent != u32::MAX {
        out.push(recs[idx as usize].mv.uci());
        idx = recs[idx as usize].parent;
    }
    out.reverse();
    out
}

pub fn run_e1(root: &Root, cfg: &E1Config, report: &Report, samples: &mut Vec<Value>) -> Totals {
    let mut totals = Totals::default();
    totals.roots = 1;
    let root_fen = root.pos.to_fen();
    let Ok(root_board) = parse_board(&root_fen) else {
        report.record(&[Divergence::new("root-rejected", format!("valid root '{root_fen}' rejected by the parser"))], || json!({"kind": "fen", "fen": root_fen}));
        return totals;
    };
    let mut recs: Vec<Rec> = vec![Rec { parent: u32::MAX, mv: Mv::new(0, 0, None) }];
    let mut seen: HashMap<Key, (u32, u64)> = HashMap::new();
    seen.insert(key_of(&root.pos), (0, root_board.zobrist()));
    let mut frontier = vec![Node { rp: root.pos.clone(), board: root_board, idx: 0 }];

    for depth in 0..=cfg.depth {
        if frontier.is_empty() {
            break;
        }
        totals.max_depth = depth;
        let last = depth == cfg.depth;
        let mut next: Vec<Node> = vec![];
        for chunk in frontier.chunks(1 << 15) {
            let expanded: Vec<Expanded> = chunk
                .par_iter()
                .map(|n| {
                    let mut props = cfg.props;
                    props.deep = depth <= 2;
                    props.full_sweep = cfg.props.full_sweep && (depth <= 1 || (n.idx as u64) % cfg.sweep_stride == 0);
                    let (divs, stats, ch, transitions) = check_state(&n.rp, &n.board, depth > 0, &props, !last, false);
                    let children = ch.into_iter().map(|(mv, rp, board)| Child { mv, rp, board }).collect();
                    Expanded { divs, stats, children, transitions }
                })
                .collect();
            for (n, e) in chunk.iter().zip(expanded) {
                totals.add_state(&e.stats);
                totals.transitions += e.transitions;
                if cfg.props.full_sweep && (depth <= 1 || (n.idx as u64) % cfg.sweep_stride == 0) {
                    totals.full_sweeps += 1;
                }
                if !e.divs.is_empty() {
                    let path = path_to(&recs, n.idx);
                    report.record(&e.divs, || json!({"kind": "state", "root": root_fen, "moves": path}));
                }
                for c in e.children {
                    // the properties quantify over clock values 0..9999 (what FEN text can carry);
                    // the transition INTO such a state was checked above, the state itself is out of scope
                    if c.rp.full > 9999 || c.rp.half > 9999 {
                        continue;
                    }
                    if let Some(mask) = cfg.dest_filter {
                        if mask & (1u64 << c.mv.to) == 0 {
                            continue;
                        }
                    }
                    let Some(cb) = c.board else { continue };
                    let k = key_of(&c.rp);
                    match seen.get(&k) {
                        Some(&(first_idx, z)) => {
                            totals.transposition_arrivals += 1;
                            if cfg.props.c04 && z != cb.zobrist() {
                                let p1 = path_to(&recs, first_idx);
                                let mut p2 = path_to(&recs, n.idx);
                                p2.push(c.mv.uci());
                                report.record(
                                    &[Divergence::new(
                                        "transposition-hash-differs",
                                        format!("{}: hash {} via [{}] but {} via [{}]", c.rp.epd(), z, p1.join(" "), cb.zobrist(), p2.join(" ")),
                                    )],
                                    || json!({"kind": "transposition", "root": root_fen, "moves_a": p1.clone(), "moves_b": p2.clone()}),
                                );
                            }
                        }
                        None => {
                            let idx = recs.len() as u32;
                            recs.push(Rec { parent: n.idx, mv: c.mv });
                            seen.insert(k, (idx, cb.zobrist()));
                            next.push(Node { rp: c.rp, board: cb, idx });
                        }
                    }
                }
            }
        }
        frontier = next;
    }
    // a few written-out cases
    if recs.len() > 1 {
        for i in sample_pick(recs.len(), report.seed, 2) {
            samples.push(json!({"root": root.name, "root_fen": root_fen, "moves": path_to(&recs, i as u32)}));
        }
    } else {
        samples.push(json!({"root": root.name, "root_fen": root_fen, "moves": []}));
    }
    totals
}

// ------------------------------------------------------------------------- E2 families

use refchess::{sq, Col, Pc};

fn place(p: &mut Position, s: u8, c: Col, pc: Pc) -> bool {
    if p.board[s as usize].is_some() {
        return false;
    }
    p.board[s as usize] = Some((c, pc));
    true
}

/// kings anywhere (not adjacent is enforced by validity), as a base for the families
fn for_each_king_pair(mut f: impl FnMut(u8, u8)) {
    for wk in 0..64u8 {
        for bk in 0..64u8 {
            if wk == bk {
                continue;
            }
            let (df, dr) = ((wk % 8) as i8 - (bk % 8) as i8, (wk / 8) as i8 - (bk / 8) as i8);
            if df.abs() <= 1 && dr.abs() <= 1 {
                continue;
            }
            f(wk, bk);
        }
    }
}

#[derive(Clone, Copy, PartialEq, Eq, Debug)]
pub enum Family {
    /// own king anywhere, an enemy queen/rook/bishop on every square aligned with it, one own piece
    /// of every type anywhere (pinned when it stands between them, a possible blocker or capturer
    /// when the slider gives check), enemy king parked in a far corner
    Pin,
    /// the positions ONE PLY BEFORE the members of `Ep`: the pawn still on its origin square and
    /// its side to move; only the double push is played, and the board reached by that move (marker
    /// set by the move code, not by the parser) is checked
    EpPlayed,
    /// pawn on the 7th, a black bishop/queen on the 8th rank diagonally adjacent (capturable with
    /// promotion), the white king on every square of the diagonal behind the pawn (so the pawn is
    /// pinned and may only capture its pinner) and on two squares off it, black king anywhere
    PromoPin,
    /// one white pawn anywhere on ranks 2-6, black king anywhere, white king in a corner,
    /// optionally a black knight on one of the pawn's capture squares: single pushes, double
    /// pushes and pawn captures that give (or do not give) direct check
    PawnPush,
    /// two own pieces of the same kind (rooks or bishops) pinned at once, one along a line it can
    /// move on and one along a line it cannot (immobile), by two enemy sliders; own king on a few
    /// squares, every pair of directions, distances 1-2: the per-kind pinned-piece loops must
    /// handle an immobile pinned piece before a mobile one
    TwoPins,
    /// white pawn on the 7th with the black king directly in front of it, a capturable black man
    /// diagonally in front, a white rook or queen behind the pawn on its file: the capturing
    /// promotion gives check along the 8th rank AND uncovers a check along the file (two checkers of
    /// the same line class); every move and every reply is checked
    PromoDouble,
    /// one white officer (queen, rook, bishop, knight) anywhere, black king anywhere, white king in
    /// a corner, optionally a black man on one of the officer's target squares: officer moves and
    /// officer captures that give (or do not give) direct check - every move is played
    OfficerCheck,
    /// ep pawns, black king anywhere, white king in a corner, one WHITE piece anywhere:
    /// en-passant captures that give direct, discovered and double checks
    EpCheck,
    /// pawn on the 7th, black king anywhere, one white piece anywhere, a capturable black
    /// piece next to the promotion square: promotions that give direct and discovered checks
    PromoCheck,
    Ep,
    Castle,
    Promo,
    Three,
}

/// White-to-move members of a family (the caller mirrors them for Black).
/// `level` 0 = quick size, 1 = thorough size.
pub fn family_positions(fam: Family, level: u8) -> Vec<Position> {
    let mut out = vec![];
    let extras = [Pc::Q, Pc::R, Pc::B, Pc::N];
    match fam {
        Family::Pin => {
            for wk in 0..64u8 {
                let (kf, kr) = ((wk % 8) as i8, (wk / 8) as i8);
                for s in 0..64u8 {
                    let (sf, sr) = ((s % 8) as i8, (s / 8) as i8);
                    if s == wk {
                        continue;
                    }
                    let straight = sf == kf || sr == kr;
                    let diagonal = (sf - kf).abs() == (sr - kr).abs();
                    if !straight && !diagonal {
                        continue;
                    }
                    for slider in [Pc::Q, Pc::R, Pc::B] {
                        if (slider == Pc::R && !straight) || (slider == Pc::B && !diagonal) {
                            continue;
                        }
                        let Some(&bk) = [63u8, 56, 7, 0].iter().find(|&&c| {
                            let (cf, cr) = ((c % 8) as i8, (c / 8) as i8);
                            c != wk && c != s && (cf - kf).abs().max((cr - kr).abs()) > 1
                        }) else {
                            continue;
                        };
                        for x in [Pc::Q, Pc::R, Pc::B, Pc::N, Pc::P] {
                            for xs in 0..64u8 {
                                if x == Pc::P && (xs < 8 || xs >= 56) {
                                    continue;
                                }
                                // level 0: the own piece stands on a line through the king or next to it
                                if level == 0 {
                                    let (xf, xr) = ((xs % 8) as i8, (xs / 8) as i8);
                                    let on_line = xf == kf || xr == kr || (xf - kf).abs() == (xr - kr).abs();
                                    if !on_line && (xf - sf).abs().max((xr - sr).abs()) > 2 {
                                        continue;
                                    }
                                }
                                let mut p = Position::empty();
                                p.turn = Col::W;
                                p.full = 1;
                                if place(&mut p, wk, Col::W, Pc::K) && place(&mut p, s, Col::B, slider) && place(&mut p, bk, Col::B, Pc::K) && place(&mut p, xs, Col::W, x) {
                                    out.push(p);
                                }
                            }
                        }
                    }
                }
            }
        }
        Family::EpPlayed => {
            for m in family_positions(Family::Ep, level) {
                let Some(f) = m.ep else { continue };
                let mut p = m.clone();
                // white to move with the marker on file f: the black pawn stands on (f,4), came from (f,6)
                if p.board[sq(f, 6) as usize].is_some() || p.board[sq(f, 5) as usize].is_some() {
                    continue;
                }
                p.board[sq(f, 4) as usize] = None;
                p.board[sq(f, 6) as usize] = Some((Col::B, Pc::P));
                p.ep = None;
                p.turn = Col::B;
                if p.valid_root().is_ok() {
                    out.push(p);
                }
            }
        }
        Family::PromoPin => {
            for f in 0..8i8 {
                for d in [-1i8, 1] {
                    if !(0..8).contains(&(f + d)) {
                        continue;
                    }
                    for pinner in [Pc::B, Pc::Q] {
                        let mut base = Position::empty();
                        base.turn = Col::W;
                        base.full = 1;
                        place(&mut base, sq(f, 6), Col::W, Pc::P);
                        place(&mut base, sq(f + d, 7), Col::B, pinner);
                        // squares behind the pawn on the pin diagonal, plus two off-diagonal squares
                        let mut wks: Vec<u8> = vec![];
                        let (mut x, mut y) = (f - d, 5i8);
                        while (0..8).contains(&x) && y >= 0 {
                            wks.push(sq(x, y));
                            x -= d;
                            y -= 1;
                        }
                        wks.push(sq(f, 0));
                        wks.push(sq((f + 4) % 8, 3));
                        for wk in wks {
                            for bk in 0..64u8 {
                                let mut p = base.clone();
                                if !place(&mut p, wk, Col::W, Pc::K) || !place(&mut p, bk, Col::B, Pc::K) {
                                    continue;
                                }
                                if p.valid_root().is_ok() {
                                    out.push(p);
                                }
                            }
                        }
                    }
                }
            }
        }
        Family::PawnPush => {
            for ps in 8..48u8 {
                let (pf, pr) = ((ps % 8) as i8, (ps / 8) as i8);
                let mut victims: Vec<Option<u8>> = vec![None];
                for df in [-1i8, 1] {
                    if (0..8).contains(&(pf + df)) {
                        victims.push(Some(sq(pf + df, pr + 1)));
                    }
                }
                for victim in victims {
                    let mut base = Position::empty();
                    base.turn = Col::W;
                    base.full = 1;
                    place(&mut base, ps, Col::W, Pc::P);
                    if let Some(v) = victim {
                        place(&mut base, v, Col::B, Pc::N);
                    }
                    for bk in 0..64u8 {
                        for wk in [0u8, 7, 56, 63, 4, 60] {
                            let mut p = base.clone();
                            if !place(&mut p, bk, Col::B, Pc::K) || !place(&mut p, wk, Col::W, Pc::K) {
                                continue;
                            }
                            if p.valid_root().is_err() {
                                continue;
                            }
                            out.push(p);
                            if level == 0 {
                                break;
                            }
                        }
                    }
                }
            }
        }
        Family::TwoPins => {
            let dirs: [(i8, i8); 8] = [(1, 0), (-1, 0), (0, 1), (0, -1), (1, 1), (1, -1), (-1, 1), (-1, -1)];
            for wk in [4u8, 27, 0, 63, 28, 36] {
                let (kf, kr) = ((wk % 8) as i8, (wk / 8) as i8);
                for kind in [Pc::R, Pc::B] {
                    for (ia, da) in dirs.iter().enumerate() {
                        for (ib, db) in dirs.iter().enumerate() {
                            if ia == ib {
                                continue;
                            }
                            // piece A on a line it cannot move along, piece B on one it can
                            let a_straight = da.0 == 0 || da.1 == 0;
                            let b_straight = db.0 == 0 || db.1 == 0;
                            let (a_ok, b_ok) = if kind == Pc::R { (!a_straight, b_straight) } else { (a_straight, !b_straight) };
                            if !a_ok || !b_ok {
                                continue;
                            }
                            for (pa, qa) in [(1i8, 2i8), (1, 3), (2, 3), (2, 4)] {
                                for (pb, qb) in [(1i8, 2i8), (1, 3), (2, 3), (2, 4)] {
                                    let cell = |d: &(i8, i8), n: i8| -> Option<u8> {
                                        let (f, r) = (kf + d.0 * n, kr + d.1 * n);
                                        if (0..8).contains(&f) && (0..8).contains(&r) {
                                            Some(sq(f, r))
                                        } else {
                                            None
                                        }
                                    };
                                    let (Some(a), Some(xa), Some(b), Some(xb)) = (cell(da, pa), cell(da, qa), cell(db, pb), cell(db, qb)) else { continue };
                                    let mut p = Position::empty();
                                    p.turn = Col::W;
                                    p.full = 1;
                                    let pinner = |straight: bool| if straight { Pc::R } else { Pc::B };
                                    let mut ok = place(&mut p, wk, Col::W, Pc::K);
                                    ok &= place(&mut p, a, Col::W, kind);
                                    ok &= place(&mut p, b, Col::W, kind);
                                    ok &= place(&mut p, xa, Col::B, pinner(a_straight));
                                    ok &= place(&mut p, xb, Col::B, if level == 0 { pinner(b_straight) } else { Pc::Q });
                                    if !ok {
                                        continue;
                                    }
                                    for bk in [63u8, 56, 7, 0, 31, 24] {
                                        let mut q = p.clone();
                                        if place(&mut q, bk, Col::B, Pc::K) && q.valid_root().is_ok() {
                                            out.push(q);
                                            break;
                                        }
                                    }
                                }
                            }
                        }
                    }
                }
            }
        }
        Family::PromoDouble => {
            for f in 0..8i8 {
                for side in [-1i8, 1] {
                    if !(0..8).contains(&(f + side)) {
                        continue;
                    }
                    for victim in [Pc::N, Pc::B, Pc::R] {
                        for behind in [Pc::R, Pc::Q] {
                            for br in 0..6i8 {
                                let mut base = Position::empty();
                                base.turn = Col::W;
                                base.full = 1;
                                place(&mut base, sq(f, 6), Col::W, Pc::P);
                                place(&mut base, sq(f, 7), Col::B, Pc::K);
                                place(&mut base, sq(f + side, 7), Col::B, victim);
                                place(&mut base, sq(f, br), Col::W, behind);
                                for wk in [0u8, 7, 4, 16, 23, 40, 47] {
                                    let mut p = base.clone();
                                    if !place(&mut p, wk, Col::W, Pc::K) || p.valid_root().is_err() {
                                        continue;
                                    }
                                    out.push(p);
                                    if level == 0 {
                                        break;
                                    }
                                }
                            }
                        }
                    }
                }
            }
        }
        Family::OfficerCheck => {
            for officer in [Pc::Q, Pc::R, Pc::B, Pc::N] {
                for os in 0..64u8 {
                    // target squares of the officer on an otherwise empty board
                    let mut lone = Position::empty();
                    lone.turn = Col::W;
                    place(&mut lone, os, Col::W, officer);
                    let targets: Vec<u8> = (0..64u8).filter(|&t| t != os && lone.attackers(t, Col::W).contains(&os)).collect();
                    let stride = if level == 0 { 4 } else { 1 };
                    let mut victims: Vec<Option<(u8, Pc)>> = vec![None];
                    for (i, &t) in targets.iter().enumerate() {
                        if i % stride == (os as usize) % stride {
                            victims.push(Some((t, if i % 2 == 0 { Pc::N } else { Pc::R })));
                        }
                    }
                    for victim in victims {
                        let mut base = Position::empty();
                        base.turn = Col::W;
                        base.full = 1;
                        place(&mut base, os, Col::W, officer);
                        if let Some((v, pc)) = victim {
                            place(&mut base, v, Col::B, pc);
                        }
                        for bk in 0..64u8 {
                            for wk in [0u8, 63, 7, 56] {
                                let mut p = base.clone();
                                if !place(&mut p, bk, Col::B, Pc::K) || !place(&mut p, wk, Col::W, Pc::K) {
                                    continue;
                                }
                                if p.valid_root().is_err() {
                                    continue;
                                }
                                out.push(p);
                                if level == 0 {
                                    break;
                                }
                            }
                        }
                    }
                }
            }
        }
        Family::EpCheck => {
            for f in 0..8i8 {
                for d in [-1i8, 1] {
                    if !(0..8).contains(&(f + d)) {
                        continue;
                    }
                    let mut base = Position::empty();
                    base.turn = Col::W;
                    base.ep = Some(f);
                    base.full = 1;
                    place(&mut base, sq(f, 4), Col::B, Pc::P);
                    place(&mut base, sq(f + d, 4), Col::W, Pc::P);
                    for bk in 0..64u8 {
                        for wk in [0u8, 7, 56, 63, 3, 60] {
                            let mut p = base.clone();
                            if !place(&mut p, bk, Col::B, Pc::K) || !place(&mut p, wk, Col::W, Pc::K) {
                                continue;
                            }
                            out.push(p.clone());
                            for &x in (if level == 0 { &extras[..1] } else { &extras[..] }).iter().chain(if level == 0 { extras[3..].iter() } else { extras[..0].iter() }) {
                                for s in 0..64u8 {
                                    let mut q = p.clone();
                                    if place(&mut q, s, Col::W, x) {
                                        out.push(q);
                                    }
                                }
                            }
                            if level == 0 {
                                break;
                            }
                        }
                    }
                }
            }
        }
        Family::PromoCheck => {
            for f in 0..8i8 {
                for victim in [None, Some((-1i8, Pc::R)), Some((1i8, Pc::N)), Some((0i8, Pc::N))] {
                    let mut base = Position::empty();
                    base.turn = Col::W;
                    base.full = 1;
                    place(&mut base, sq(f, 6), Col::W, Pc::P);
                    if let Some((d, x)) = victim {
                        if !(0..8).contains(&(f + d)) {
                            continue;
                        }
                        place(&mut base, sq(f + d, 7), Col::B, x);
                    }
                    for bk in 0..64u8 {
                        for wk in [0u8, 7, 56, 63, 3, 60] {
                            let mut p = base.clone();
                            if !place(&mut p, bk, Col::B, Pc::K) || !place(&mut p, wk, Col::W, Pc::K) {
                                continue;
                            }
                            out.push(p.clone());
                            for &x in (if level == 0 { &extras[..1] } else { &extras[..] }).iter().chain(if level == 0 { extras[3..].iter() } else { extras[..0].iter() }) {
                                for s in 0..64u8 {
                                    let mut q = p.clone();
                                    if place(&mut q, s, Col::W, x) {
                                        out.push(q);
                                    }
                                }
                            }
                            if level == 0 {
                                break;
                            }
                        }
                    }
                }
            }
        }
        Family::Ep => {
            // black pawn just double-stepped to (f,4); white capturer(s) beside it; one extra black piece
            for f in 0..8i8 {
                // one capturer on either side, or both (two move-list entries for the same victim)
                let sides: Vec<Vec<i8>> = vec![vec![-1], vec![1], vec![-1, 1]];
                for caps in &sides {
                    if caps.iter().any(|d| !(0..8).contains(&(f + d))) {
                        continue;
                    }
                    let mut base = Position::empty();
                    base.turn = Col::W;
                    base.ep = Some(f);
                    base.full = 1;
                    place(&mut base, sq(f, 4), Col::B, Pc::P);
                    for d in caps {
                        place(&mut base, sq(f + d, 4), Col::W, Pc::P);
                    }
                    for_each_king_pair(|wk, bk| {
                        let mut p = base.clone();
                        if !place(&mut p, wk, Col::W, Pc::K) || !place(&mut p, bk, Col::B, Pc::K) {
                            return;
                        }
                        // kings-only member
                        out.push(p.clone());
                        // quick: the lines through the king are what matter; sliders + knight
                        for &x in &extras {
                            // quick level: restrict the extra piece to squares aligned with the
                            // white king or on the pawn rank (everything else cannot interact)
                            for s in 0..64u8 {
                                if level == 0 {
                                    let (kf, kr) = ((wk % 8) as i8, (wk / 8) as i8);
                                    let (sf, sr) = ((s % 8) as i8, (s / 8) as i8);
                                    let aligned = sf == kf || sr == kr || (sf - kf).abs() == (sr - kr).abs();
                                    if x != Pc::N && !aligned {
                                        continue;
                                    }
                                    if x == Pc::N && ((sf - kf).abs().max((sr - kr).abs()) > 2) {
                                        continue;
                                    }
                                }
                                let mut q = p.clone();
                                if place(&mut q, s, Col::B, x) {
                                    out.push(q);
                                }
                            }
                        }
                    });
                }
            }
        }
        Family::Castle => {
            for rights in 1..4u8 {
                // bit0 = K, bit1 = Q
                let mut base = Position::empty();
                base.turn = Col::W;
                base.full = 1;
                place(&mut base, 4, Col::W, Pc::K);
                if rights & 1 != 0 {
                    place(&mut base, 7, Col::W, Pc::R);
                    base.rights[refchess::WK] = true;
                }
                if rights & 2 != 0 {
                    place(&mut base, 0, Col::W, Pc::R);
                    base.rights[refchess::WQ] = true;
                }
                for bk in 0..64u8 {
                    let mut p = base.clone();
                    if !place(&mut p, bk, Col::B, Pc::K) {
                        continue;
                    }
                    out.push(p.clone());
                    for &x in &[Pc::Q, Pc::R, Pc::B, Pc::N, Pc::P] {
                        for s in 0..64u8 {
                            let mut q = p.clone();
                            if !place(&mut q, s, Col::B, x) {
                                continue;
                            }
                            out.push(q.clone());
                            if level >= 1 {
                                // a second piece: a white blocker/own piece or another black attacker
                                for &(c2, x2) in &[(Col::B, Pc::R), (Col::B, Pc::N), (Col::W, Pc::N), (Col::W, Pc::B)] {
                                    for s2 in 0..24u8 {
                                        let mut q2 = q.clone();
                                        if place(&mut q2, s2, c2, x2) {
                                            out.push(q2);
                                        }
                                    }
                                }
                            }
                        }
                    }
                }
            }
        }
        Family::Promo => {
            for f in 0..8i8 {
                let mut base = Position::empty();
                base.turn = Col::W;
                base.full = 1;
                place(&mut base, sq(f, 6), Col::W, Pc::P);
                for_each_king_pair(|wk, bk| {
                    let mut p = base.clone();
                    if !place(&mut p, wk, Col::W, Pc::K) || !place(&mut p, bk, Col::B, Pc::K) {
                        return;
                    }
                    out.push(p.clone());
                    for &x in &extras {
                        // quick: extra piece on ranks 7-8 (capturable / blocking / pinning along the rank)
                        // or aligned with the white king; thorough: anywhere
                        for s in 0..64u8 {
                            if level == 0 {
                                let (kf, kr) = ((wk % 8) as i8, (wk / 8) as i8);
                                let (sf, sr) = ((s % 8) as i8, (s / 8) as i8);
                                let aligned = sf == kf || sr == kr || (sf - kf).abs() == (sr - kr).abs();
                                if sr < 6 && !(aligned && x != Pc::N) {
                                    continue;
                                }
                            }
                            let mut q = p.clone();
                            if place(&mut q, s, Col::B, x) {
                                out.push(q);
                            }
                        }
                    }
                });
            }
        }
        Family::Three => {
            for_each_king_pair(|wk, bk| {
                let mut base = Position::empty();
                base.turn = Col::W;
                base.full = 1;
                place(&mut base, wk, Col::W, Pc::K);
                place(&mut base, bk, Col::B, Pc::K);
                for &c in &[Col::W, Col::B] {
                    for &x in &[Pc::Q, Pc::R, Pc::B, Pc::N, Pc::P] {
                        for s in 0..64u8 {
                            if x == Pc::P && (s < 8 || s >= 56) {
                                continue;
                            }
                            let mut q = base.clone();
                            if place(&mut q, s, c, x) {
                                out.push(q);
                            }
                        }
                    }
                }
            });
        }
    }
    out
}

/// run one family: every valid member (and its colour mirror) is checked at the root and, when
/// `child_props` is set, one ply below it
pub fn run_family(fam: Family, level: u8, props: &Props, child_props: Option<&Props>, special_only: bool, report: &Report, samples: &mut Vec<Value>) -> Totals {
    let members = family_positions(fam, level);
    let mut totals = Totals::default();
    let results: Vec<Totals> = members
        .par_chunks(4096)
        .map(|chunk| {
            let mut t = Totals::default();
            for base in chunk {
                for p in [base.clone(), base.mirror()] {
                    if p.valid_root().is_err() {
                        t.family_rejected_invalid += 1;
                        continue;
                    }
                    let mut fam_props = *props;
                    fam_props.double_push_only = fam == Family::EpPlayed;
                    fam_props.skip_state_oracles = fam == Family::EpPlayed;
                    let props = &fam_props;
                    t.family_positions += 1;
                    let fen = p.to_fen();
                    let Ok(board) = parse_board(&fen) else {
                        report.record(&[Divergence::new("family-member-rejected", format!("valid position '{fen}' rejected by the parser"))], || json!({"kind": "fen", "fen": fen}));
                        continue;
                    };
                    let (divs, st, children, transitions) = check_state(&p, &board, false, props, true, special_only);
                    t.add_state(&st);
                    t.transitions += transitions;
                    report.record(&divs, || json!({"kind": "state", "root": fen, "moves": []}));
                    if let Some(cp) = child_props {
                        for (m, crp, cb) in children {
                            let Some(cb) = cb else { continue };
                            let (divs, st, _, _) = check_state(&crp, &cb, true, cp, false, false);
                            t.add_state(&st);
                            report.record(&divs, || json!({"kind": "state", "root": fen, "moves": [m.uci()]}));
                        }
                    }
                }
            }
            t
        })
        .collect();
    for t in &results {
        totals.merge(t);
    }
    for i in sample_pick(members.len(), report.seed, 2) {
        samples.push(json!({"family": format!("{fam:?}"), "fen": members[i].to_fen()}));
    }
    totals
}

/// replay of a `state` case: rebuild by playing the moves from the root, run the oracles
pub fn replay_state(root_fen: &str, moves: &[String], props: &Props) -> Vec<Divergence> {
    // both ways of getting there: continuing from the rebuilt twin after a wrong successor (the
    // default exploration) and carrying the board reached by play through the whole history
    let mut d = replay_state_mode(root_fen, moves, props, false);
    for x in replay_state_mode(root_fen, moves, props, true) {
        if !d.iter().any(|y| y.class == x.class && y.detail == x.detail) {
            d.push(x);
        }
    }
    d
}

fn replay_state_mode(root_fen: &str, moves: &[String], props: &Props, carry_played: bool) -> Vec<Divergence> {
    let rp0 = Position::from_fen(root_fen).unwrap_or_else(|e| machinery_failure(&format!("replay root: {e}")));
    let Ok(mut board) = parse_board(root_fen) else {
        return vec![Divergence::new("root-rejected", format!("'{root_fen}' rejected"))];
    };
    let mut rp = rp0;
    let mut d = vec![];
    for (i, ms) in moves.iter().enumerate() {
        let m = Mv::parse(ms).unwrap_or_else(|| machinery_failure("replay: bad move"));
        let crp = rp.make(m);
        let last = i + 1 == moves.len();
        let _ = last;
        match board.move_new(real_mv(m)) {
            Some(b) => board = b,
            None => match parse_board(&crp.to_fen()) {
                Ok(b) => board = b,
                Err(_) => return d,
            },
        }
        if let Ok(t) = parse_board(&crp.to_fen()) {
            if t != board && !carry_played {
                board = t;
            }
        }
        rp = crp;
    }
    let mut props = *props;
    props.full_sweep = props.full_sweep && moves.len() <= 2;
    let (dd, _, _, _) = check_state(&rp, &board, !moves.is_empty(), &props, true, false);
    d.extend(dd);
    d
}
