//! The unmodified source of /repo/tracing-enabled, compiled with `std` bound to the loom shim.
#![no_std]

#[macro_use]
extern crate c20_shim as std;

#[path = "/repo/tracing-enabled/src/lib.rs"]
mod imp;

pub use imp::*;
