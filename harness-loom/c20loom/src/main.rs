//! C20 engine B: every interleaving (loom DPOR, bounded preemptions) of two threads running
//! short programs over the real tracing-enabled operations; linearizability oracle.
//! Prints one line `LOOM-REPORT <json>`.

use c20_subject as te;
use std::sync::atomic::{AtomicU64, Ordering};
use std::sync::Mutex;

#[derive(Clone, Copy, Debug, PartialEq, Eq)]
enum Op {
    Enable,
    Disable,
    Toggle,
    LocalEnable,
    LocalDisable,
    LocalToggle,
    LocalTake,
    Restore,
    /// `let _ = local_take();`
    TakeDiscard,
}
const OPS: [Op; 9] = [Op::Enable, Op::Disable, Op::Toggle, Op::LocalEnable, Op::LocalDisable, Op::LocalToggle, Op::LocalTake, Op::Restore, Op::TakeDiscard];

#[derive(Clone, Copy, PartialEq, Eq, Debug)]
enum Flag {
    Global,
    Enabled,
    Disabled,
}

#[derive(Clone, Copy)]
struct Th {
    local: Flag,
    token: Option<Flag>,
}

fn toggle(f: Flag) -> Flag {
    match f {
        Flag::Global => Flag::Global,
        Flag::Enabled => Flag::Disabled,
        Flag::Disabled => Flag::Enabled,
    }
}

/// reference: apply op of one thread; returns what `is_enabled()` right after it must report
/// IF the observation is linearized immediately after the op (observations are separate steps,
/// see `explain`)
fn apply(global: &mut bool, th: &mut Th, op: Op) {
    match op {
        Op::Enable => {
            th.local = Flag::Enabled;
            *global = true;
        }
        Op::Disable => {
            th.local = Flag::Disabled;
            *global = false;
        }
        Op::Toggle => {
            th.local = toggle(th.local);
            *global = !*global;
        }
        Op::LocalEnable => th.local = Flag::Enabled,
        Op::LocalDisable => th.local = Flag::Disabled,
        Op::LocalToggle => th.local = toggle(th.local),
        Op::LocalTake => {
            th.token = Some(th.local);
            th.local = Flag::Global;
        }
        Op::Restore => {
            if let Some(f) = th.token.take() {
                th.local = f;
            }
        }
        Op::TakeDiscard => th.local = Flag::Global,
    }
}

fn view(global: bool, th: &Th) -> bool {
    match th.local {
        Flag::Global => global,
        Flag::Enabled => true,
        Flag::Disabled => false,
    }
}

/// Each thread's trace is op, obs, op, obs, ...  Is there an interleaving of the two traces
/// (program order kept) under which the reference yields exactly the observed values and the
/// observed final global value?
fn explain(p: [&[Op]; 2], obs: [&[bool]; 2], final_global: bool) -> bool {
    fn rec(p: [&[Op]; 2], obs: [&[bool]; 2], pos: [usize; 2], global: bool, th: [Th; 2], final_global: bool) -> bool {
        // pos counts steps: even = next is op k/2, odd = next is observation k/2
        let done = |t: usize| pos[t] == 2 * p[t].len();
        if done(0) && done(1) {
            return global == final_global;
        }
        for t in 0..2 {
            if done(t) {
                continue;
            }
            let k = pos[t] / 2;
            let mut g = global;
            let mut ths = th;
            if pos[t] % 2 == 0 {
                apply(&mut g, &mut ths[t], p[t][k]);
            } else if view(g, &ths[t]) != obs[t][k] {
                continue;
            }
            let mut np = pos;
            np[t] += 1;
            if rec(p, obs, np, g, ths, final_global) {
                return true;
            }
        }
        false
    }
    rec(p, obs, [0, 0], true, [Th { local: Flag::Global, token: None }; 2], final_global)
}

fn run_program(prog: &[Op]) -> Vec<bool> {
    let mut token: Option<te::LocalEnableState> = None;
    let mut obs = Vec::with_capacity(prog.len());
    for &op in prog {
        match op {
            Op::Enable => { let _ = te::enable(); }
            Op::Disable => { let _ = te::disable(); }
            Op::Toggle => { let _ = te::toggle(); }
            Op::LocalEnable => { let _ = te::local_enable(); }
            Op::LocalDisable => { let _ = te::local_disable(); }
            Op::LocalToggle => { let _ = te::local_toggle(); }
            Op::LocalTake => token = Some(te::local_take()),
            Op::Restore => {
                if let Some(t) = token.take() {
                    let _ = te::restore(t);
                }
            }
            Op::TakeDiscard => {
                let _ = te::local_take();
            }
        }
        obs.push(te::is_enabled());
    }
    obs
}

static SCHEDULES: AtomicU64 = AtomicU64::new(0);
static FAILURES: Mutex<Vec<(String, String)>> = Mutex::new(Vec::new());
static OUTCOMES: Mutex<Option<std::collections::BTreeSet<String>>> = Mutex::new(None);

fn programs(max_len: usize) -> Vec<Vec<Op>> {
    let mut all: Vec<Vec<Op>> = vec![vec![]];
    let mut layer: Vec<Vec<Op>> = vec![vec![]];
    for _ in 0..max_len {
        let mut next = vec![];
        for p in &layer {
            for op in OPS {
                let mut q = p.clone();
                q.push(op);
                next.push(q);
            }
        }
        all.extend(next.iter().cloned());
        layer = next;
    }
    all
}

fn touches_global(p: &[Op]) -> bool {
    // every program reads the global through is_enabled() unless an override is in place; keep all
    !p.is_empty()
}

fn main() {
    let tier = std::env::args().nth(1).unwrap_or_else(|| "quick".into());
    let max_len = if tier == "thorough" { 3 } else { 2 };
    let mut progs = programs(max_len);
    if tier == "debug" {
        progs = vec![vec![Op::Enable, Op::Disable], vec![Op::Disable, Op::LocalTake]];
    }
    let mut pairs = 0u64;
    *OUTCOMES.lock().unwrap() = Some(Default::default());
    let t0 = std::time::Instant::now();
    for (i, p1) in progs.iter().enumerate() {
        for p2 in progs.iter().skip(i) {
            if !touches_global(p1) || !touches_global(p2) {
                continue;
            }
            // thorough: 3-op programs only against programs of <= 1 op (bounded blow-up)
            if p1.len() + p2.len() > 4 {
                continue;
            }
            pairs += 1;
            let (a, b) = (p1.clone(), p2.clone());
            let mut builder = loom::model::Builder::new();
            if builder.preemption_bound.is_none() {
                builder.preemption_bound = Some(3);
            }
            builder.check(move || {
                SCHEDULES.fetch_add(1, Ordering::Relaxed);
                let (a1, b1) = (a.clone(), b.clone());
                let h1 = loom::thread::spawn(move || run_program(&a1));
                let h2 = loom::thread::spawn(move || run_program(&b1));
                let o1 = h1.join().unwrap();
                let o2 = h2.join().unwrap();
                // the main thread has no override: it reads the global setting
                let final_global = te::is_enabled();
                if let Some(set) = OUTCOMES.lock().unwrap().as_mut() {
                    if set.len() < 100_000 {
                        set.insert(format!("{a:?}{b:?}{o1:?}{o2:?}{final_global}"));
                    }
                }
                if std::env::var("C20_DEBUG").is_ok() {
                    let third = loom::thread::spawn(|| te::is_enabled()).join().unwrap();
                    eprintln!("T0 {a:?} -> {o1:?} | T1 {b:?} -> {o2:?} | final {final_global} third {third}");
                }
                if !explain([&a, &b], [&o1, &o2], final_global) {
                    let mut f = FAILURES.lock().unwrap();
                    let key = format!("T0 {a:?}");
                    if f.len() < 5 && !f.iter().any(|(_, d)| d.starts_with(&key)) {
                        f.push((
                            "history-not-linearizable".to_string(),
                            format!("T0 {a:?} observed {o1:?}; T1 {b:?} observed {o2:?}; final global {final_global}: no sequential order of the operations explains this"),
                        ));
                    }
                }
            });
        }
    }
    let failures = FAILURES.lock().unwrap();
    let outcomes = OUTCOMES.lock().unwrap().as_ref().map(|s| s.len()).unwrap_or(0);
    let fj: Vec<String> = failures.iter().map(|(c, d)| format!("{{\"class\":{:?},\"detail\":{:?}}}", c, d)).collect();
    println!(
        "LOOM-REPORT {{\"programs\":{},\"program_pairs\":{},\"max_program_length\":{},\"schedules\":{},\"distinct_outcomes\":{},\"preemption_bound\":{:?},\"wall_s\":{:.1},\"failures\":[{}]}}",
        progs.len(),
        pairs,
        max_len,
        SCHEDULES.load(Ordering::Relaxed),
        outcomes,
        std::env::var("LOOM_MAX_PREEMPTIONS").unwrap_or_else(|_| "3".into()),
        t0.elapsed().as_secs_f64(),
        fj.join(",")
    );
}
