//! A stand-in for `std` as seen by `tracing-enabled`: everything is re-exported from the real
//! `std`, except the three things the crate's concurrency behaviour depends on, which are routed
//! through loom so that its scheduler sees (and permutes) every access:
//!   * `cell::Cell`               -> `loom::cell::Cell`
//!   * `sync::atomic::AtomicBool` -> a const-constructible facade over a per-execution loom atomic
//!   * `thread_local!`            -> `loom::thread_local!` (the `const { }` initialiser is unwrapped)

pub use ::std::*;

pub mod cell {
    pub use ::std::cell::*;
    pub use loom::cell::Cell;
}

pub mod sync {
    pub use ::std::sync::*;
    pub mod atomic {
        pub use ::std::sync::atomic::Ordering;
        use loom::sync::atomic::AtomicBool as LoomBool;
        use loom::sync::Arc;
        use std::collections::HashMap;
        use loom::sync::Mutex;

        loom::lazy_static! {
            // one loom atomic per facade address, created on first use in each loom execution
            // (loom resets lazy_statics between executions)
            static ref REGISTRY: Mutex<HashMap<usize, Arc<LoomBool>>> = Mutex::new(HashMap::new());
        }

        /// `static X: AtomicBool = AtomicBool::new(v)` must be const-constructible, which a loom
        /// atomic is not; the facade remembers the initial value and looks the real loom atomic
        /// up by its own address.
        pub struct AtomicBool {
            init: bool,
        }

        impl AtomicBool {
            pub const fn new(v: bool) -> Self {
                AtomicBool { init: v }
            }
            fn real(&self) -> Arc<LoomBool> {
                let key = self as *const _ as usize;
                let mut g = REGISTRY.lock().unwrap();
                g.entry(key).or_insert_with(|| Arc::new(LoomBool::new(self.init))).clone()
            }
            // Every access is performed SeqCst whatever ordering the subject asked for.
            // Reason: with Release stores / Acquire loads loom 0.7.2 produced executions that
            // C11 forbids for a single location (T0: store(true); store(false) | T1: store(false);
            // load -> true | after joining both: load -> true, i.e. an overwritten store is read
            // by a load that happens-after every store).  Such executions would be false alarms
            // of the linearizability oracle.  Under SeqCst loom enumerates exactly the
            // interleavings of the atomic steps, which is what this check is about (atomicity of
            // each operation's single access), not weak-memory visibility.
            pub fn load(&self, _o: Ordering) -> bool {
                self.real().load(Ordering::SeqCst)
            }
            pub fn store(&self, v: bool, _o: Ordering) {
                self.real().store(v, Ordering::SeqCst)
            }
            pub fn fetch_xor(&self, v: bool, _o: Ordering) -> bool {
                self.real().fetch_xor(v, Ordering::SeqCst)
            }
            pub fn fetch_or(&self, v: bool, _o: Ordering) -> bool {
                self.real().fetch_or(v, Ordering::SeqCst)
            }
            pub fn fetch_and(&self, v: bool, _o: Ordering) -> bool {
                self.real().fetch_and(v, Ordering::SeqCst)
            }
            pub fn swap(&self, v: bool, _o: Ordering) -> bool {
                self.real().swap(v, Ordering::SeqCst)
            }
            pub fn compare_exchange(&self, c: bool, n: bool, _s: Ordering, _f: Ordering) -> Result<bool, bool> {
                self.real().compare_exchange(c, n, Ordering::SeqCst, Ordering::SeqCst)
            }
        }
    }
}

#[macro_export]
macro_rules! thread_local {
    () => {};
    ($(#[$attr:meta])* $vis:vis static $name:ident: $t:ty = const { $init:expr }; $($rest:tt)*) => (
        loom::thread_local! { $(#[$attr])* $vis static $name: $t = $init; }
        $crate::thread_local!($($rest)*);
    );
    ($(#[$attr:meta])* $vis:vis static $name:ident: $t:ty = const { $init:expr }) => (
        loom::thread_local! { $(#[$attr])* $vis static $name: $t = $init; }
    );
    ($(#[$attr:meta])* $vis:vis static $name:ident: $t:ty = $init:expr; $($rest:tt)*) => (
        loom::thread_local! { $(#[$attr])* $vis static $name: $t = $init; }
        $crate::thread_local!($($rest)*);
    );
    ($(#[$attr:meta])* $vis:vis static $name:ident: $t:ty = $init:expr) => (
        loom::thread_local! { $(#[$attr])* $vis static $name: $t = $init; }
    );
}
