#!/bin/bash
# run every quick (or thorough) check through the driver and summarise
tier="${1:-quick}"
cd /verif
for i in $(seq -w 1 20); do
    p="C$i"
    s=$(date +%s.%N)
    out=$(./check $p --tier $tier 2>&1)
    rc=$?
    e=$(date +%s.%N)
    printf "%s rc=%d %.1fs %s\n" $p $rc $(echo "$e - $s" | bc) "$(echo "$out" | grep -E '^(VIOLATION|KNOWN-FINDING|MACHINERY)' | cut -c1-150 | tr '\n' ';')"
done
