#!/usr/bin/env python3
"""Regenerates seeded/RESULTS.md from seeded/*/meta.json plus the hand-kept notes below."""
import json, glob

STRENGTHENED = [
 ("C03-B", "a double pawn push never registers as a direct check", "needs a king advanced to the 4th/5th rank; no BFS root reaches that within its depth", "new complete family `PawnPush` (one pawn on ranks 2-6, optional capturable knight, enemy king anywhere; every move played) in C01-C05"),
 ("C06-A", "clock parser reads 5 digits into a u16", "in the shipped flavour the multiplication wraps silently, so the release-build totality pass saw nothing (C07 saw it)", "C06 repeats its single-edit / field-product / reachable-FEN passes in the trapping flavour (`parser-panics-in-trapping-build:*`)"),
 ("C10-B", "`remove` skips entries before the cursor", "needs set_mask, next, remove, then a *wider* mask - three mutators", "every C10 run ends with `set_mask(all)` + drain when its mask is not full (the property's last clause), class `*:final-widening`"),
 ("C11-B", "search returns no move at once when the root's half-move clock >= 100", "the oracle only required a move when the sentinel showed a completed pass", "a search that ends *by itself* (timeout never reported expiry) with legal moves must return a move"),
 ("C12-B", "masked two-phase iteration loses a pawn's push-promotion after its capture-promotion was iterated", "the KQ-K/KR-K/KP-K families contain no captures at all", "C12 adds K+Q v K+N/R, K+P(7th) v K + capturable piece beside the promotion square, four hand-built mates competing with captures"),
 ("C15-A / C15-B", "rejected submissions counted as occurrences / bishop promotion decoded as knight on the plugin side", "illegal moves were only submitted at the end of histories; no alphabet contained a promotion", "illegal submissions inserted at every position of every depth-12 knight-shuffle history; `set_board` of every catalogue root followed by every legal move sequence of length <= 2"),
 ("C20-A", "process-wide `HAS_LOCAL` fast-path flag", "engine A caught it, but engine B crashed (loom causality violation: shim atomics created lazily under a std mutex) and the crash discarded engine A's verdict", "shim registry guarded by a loom mutex; an engine-B failure no longer masks an engine-A violation"),
 ("C05r2-B", "a rejected `BoardBuilder::place` still toggles the hash", "no builder sequence contained a rejected placement followed by a hash comparison", "C05 builds every rights-free root through five call sequences (plain, rejected placement, remove + re-place, extra piece placed and removed, reverse order) and compares with the parser incl. hash; C06 compares every accepted builder board with its parsed twin"),
 ("C05r2-C", "validation rejects an ep marker when the pushing side has a piece on the other double-step rank of that file", "C05's quick families had no such geometry (C01's `Ep` family had)", "`Ep`, `PawnPush`, `PromoPin` roots added to C05 quick; C06 accepts-reachable pass extended to every member of the small-material families"),
 ("C06r2-A", "own king transparent in the side-not-to-move-in-check validation (legal positions rejected)", "needs own slider, own king, enemy king collinear; not within depth 2 of any root", "C06 acceptance pass over the `Three`, `PawnPush`, `PromoPin`, `EpCheck`, `Castle` families"),
 ("C06r2-C", "castling-rights validation accepts the ENEMY king on e1/e8", "more than two edits away from every seed", "C06 enumerates the whole domain of the castling validation (6 home squares x 6 occupants x 15 rights subsets x 2 turns) and of the en-passant validation"),
 ("C02r2-C", "half-move clock sticks at 65534", "FEN cannot carry the value", "C02 installs clock values up to the 16-bit limit through the builder and checks every successor"),
 ("C02r2-B (for C02)", "pinned promoting pawn loses its promotion flag", "C02's quick families had no diagonal pin of a 7th-rank pawn by a piece on the 8th (C01 had)", "new complete family `PromoPin` in C01-C05"),
 ("C07r2-C", "16-men limit enforced for White only", "the extremal driver had white-heavy positions only", "over-full positions of both colours (17-19 mobile pieces, 17/15 split with two ep capturers) in the extremal driver"),
 ("C03r2-B", "king capturing an unmoved corner rook leaves the victim's castling right", "the explorer replaces a wrong successor by the rebuilt twin before the state oracles run (anti-cascade), so only C02 reported it", "C03 reports `stale:played-successor-not-equal-to-rebuilt`; C01 runs its generator oracle on the played board (`on-played-board:*`) before switching to the twin"),
 ("C01r2-A", "move-list capacity 18 -> 17", "undefined behaviour in the shipped flavour killed the check process (SIGSEGV, exit 139)", "every main-process check installs a fatal-signal handler that prints VIOLATION and writes a replay naming the case in progress (`fatal-signal-in-implementation`)"),
 ("C01r2-B", "the move code does not set the ep marker when every adjacent enemy pawn is pinned", "history-dependent: the parser sets the marker, so only the board reached by PLAYING the double push lacks the capture; the anti-cascade replacement hid it from C01", "`on-played-board:*` oracle + new family `EpPlayed` (the positions one ply before every `Ep` member, only the double push is played)"),
 ("C10r2-B", "castling dropped by `legals_masked` when the mask holds a castling destination but none of the king's neighbour squares", "no generation mask had that shape", "C10 generates under every single-square mask, every all-but-one-square mask and the castling-destinations mask"),
 ("C11r2-A", "a stale best move of the PREVIOUS search is returned when one Engine is reused for another position", "every search used a fresh Engine", "C11 searches position A to completion and then position B with every expiry point on one Engine, for neighbouring catalogue positions and pairs that share a movable piece's square"),
 ("C11r2-B", "forced-move roots return no move at periodic expiry polls (two cooperating edits)", "the catalogue had no root with exactly one legal move and an ongoing game", "all kings+1 positions with exactly one legal move (strided) and four hand-built forced-move roots, swept over eight passes"),
 ("C11r2-C", "`unwrap()` inside a log statement that is only evaluated when a tracing subscriber is installed", "the harness installs no subscriber", "C11 repeats a reduced sweep in a child process with a DEBUG-level subscriber (`with-logging-enabled:*`)"),
 ("C12r2-A", "insufficient-material shortcut (bishop colour computed from the file parity) fires on a capture that mates", "no family had a capture-mate into a minors-only ending", "new reference-selected family: capture-mates that leave kings and minor pieces"),
 ("C12r2-C", "first pass tries the queen promotion first through `remove_move`, which removes all four promotions (F12), so a knight-promotion mate is not searched", "no family had a mate that only an under-promotion delivers", "new reference-selected families: promotion-only mates and knight-under-promotion mates where the queen promotion does not mate"),
 ("C15r2-B", "`Board::eq` compares cached pin/checker sets + the parser clears pins in double check (two cooperating edits)", "needs a set_board position that is a double check with a pinned piece, repeated through a cycle", "two scenario roots added (double check with a pinned rook, and one ply before it); C15 plays up to 8 four-ply cycles through every catalogue root three times"),
 ("C15r2-C", "the plugin applies its own last suggestion unchecked, and set_board does not forget it", "suggestions were never submitted back", "`SubmitSuggestion` operation: the proposal is submitted at once, after other moves, and after a set_board to another position"),
 ("C04r2-A", "`==` ignores an en-passant marker no pawn can use, the hash still includes it", "every comparison paired a board with its own rebuilt twin; boards the reference considers DIFFERENT were never tested for `==`", "C04 parses the neighbours of every state (marker removed, each right removed) and requires equal hashes whenever the implementation calls them equal"),
 ("C04r2-B", "rejected `place` corrupts the builder's hash", "C04 did not use the builder", "the builder call sequences of C05 are also run under C04 (hash classes only)"),
 ("C17r2-A", "`count()`/`nth()` overrides of the book iterator reach a subtree that `next()` never yields, plus an illegal move planted there", "the walk used `for`/`next()` only; the CLI picks moves with `count()` + `nth(k)`", "every node's `count()` and `nth(k)` for every k must describe the same list as iteration"),
 ("C18r2-A / C18r2-B", "`collect` stops after 64 items / `nth(n)` truncates n to 32 bits", "collections had at most 64 distinct squares; skip counts above 128 were only usize::MAX-ish", "collections of 70+ squares with repeats; ~70 skip counts around every power of two up to 2^63"),
 ("C19r2-A / C19r2-B", "`Rank::all().nth(n)` reduces n mod 256 / the move parser accepts any number of dashes", "skip counts were <= len+1 or usize::MAX; quick enumerated move strings up to 5 bytes", "skip counts around 2^8..2^63; move strings assembled from square tokens, separator runs of up to ten dashes and tails"),
 ("C02r3-A / C15r3-C", "an en-passant capture that gives DIRECT check is not recorded as a checker (board equal, cached state stale)", "C02 offered near misses only at states it also expands; no catalogue root had a direct en-passant check with spare pieces for the checked side; the plugin histories never submitted illegal moves right after a special move", "C02 offers the near misses to the checked operations in every state incl. the last BFS level and the children of the `EpCheck` family; scenario `ep-direct-check`; C15 submits up to eight illegal-but-plausible moves after every rule-special first move"),
 ("C12r3-A", "root shortcut: with exactly one legal move return it with a static score (mate not recognised)", "the oracle required 'first pass completed' via the max_depth sentinel, which the shortcut never writes; and no catalogue position was 'in check, one legal move, it mates' (two exhaustive 4-6 men searches found none)", "a search that ends by itself counts as completed; three such positions added (one constructed, two from play)"),
 ("C11r3-A", "pass 0 is not committed when its best score is an 'unconfirmed' lost mate; max_depth is not written either", "the only observation of 'the first pass finished' was the max_depth sentinel", "second, independent observation in the logging sub-run: a tracing layer watches the engine's own 'start depth' events - once the pass for depth >= 1 has started, pass 0 is over (`search-returns-no-move-although-a-later-pass-had-started`); the author's root added"),
 ("C11r3-B", "initial scores tightened to MateIn(2): a move that gets mated by the reply never beats the initial value, so a complete pass commits 'no move'", "needs a root where EVERY legal move allows mate in one", "all K+Q v K positions with the lone king to move and every move losing to mate in one (strided) added to the C11 catalogue"),
 ("C03r3-C", "en-passant exposure test skipped when in check (capturer pinned on its file)", "NOT caught by C03: played and rebuilt boards are wrong in the same way and state() only differs in positions that are checkmate; C01 reports it (`illegal-move-generated:en-passant`)", "`Ep` roots added to C03 quick (catches the mate positions when they occur); for the 5-men family the king always has a flight, so C03 stays quiet - listed under 'Not caught by the owning property'"),
 ("C05r3-B", "FEN writer assembles the text in an 84-byte buffer", "no catalogue FEN was longer than 77 bytes", "two maximally fragmented 32-piece placements with all rights and four-digit clocks (91 bytes) in C05's field products and C06's must-accept list; a panic inside the implementation during a main-process check is reported as VIOLATION `panic-in-implementation`"),
 ("C05r3-C / C02r3-B", "`move_into` into a reused buffer does not carry the hash / inherits the buffer's half-move clock", "`move_into` was only exercised into a fresh standard board (C02)", "C03/C04/C05 write every successor with `move_into` into a buffer that held another position (Kiwipete, odd clocks) and compare it with `move_new`'s"),
 ("C06r3-B", "'at most nine of any officer' rejects ten knights", "no promoted-material position was in the must-accept set", "eight legally reachable maximum-promotion positions (10 N / B / R, 9 Q, either colour)"),
 ("C01r2-C", "ep legality computed once with all capturers removed", "needs two capturers plus a pin / rank geometry; the quick `Ep` family had one capturer", "`Ep` level 0 now includes the two-capturer members"),
]

def main():
    rows=[json.load(open(d)) for d in sorted(glob.glob('/verif/seeded/*/meta.json'))]
    out=["# Independently seeded property-breaking changes","",
"Each directory holds a change produced by a fresh sub-agent that saw only one property record and a scratch",
"worktree of the repository (nothing from /verif): `patch.diff`, the author's demonstration (`*.rs` + `run.sh`),",
"the author's `README.md` (what it is, what it needs in order to manifest) and `meta.json` (what I re-confirmed:",
"the repository's 44 tests pass with the change; the demonstration exits 0 on the clean tree and non-zero with the",
"change; which checks were run against it and what they reported). Round 1 (`Cxx-A/B`) asked for two changes per",
"property; round 2 (`Cxxr2-A/B/C`) asked for three *hard-to-find* ones (multi-step histories, rare geometry, extreme",
"values, interacting features) for the twelve behaviour-heavy properties. None of these changes is ever committed to",
"/repo; `tools/try_patch.sh <patch> <tier> <ID...>` applies one, runs checks and always reverts; `tools/vet_seeded.sh`",
"is the whole confirmation procedure. The table shows the state after the strengthening listed below it. (For the",
"last batch - C04r2, C08r2, C09r2, C14r2, C16r2, C17r2, C18r2, C19r2 - the strengthening was done after reading",
"the authors' descriptions and before the first run, so 'why missed' there is my analysis of the earlier version.)","",
f"{len(rows)} changes kept; {sum(1 for m in rows if any(v['caught'] for v in m['checks_run']['results'].values()))} are caught by the quick check of the property they were written against; the exceptions are listed under 'Not caught'.","",
"| change | breaks | caught by (quick tier) | divergence classes reported |","|---|---|---|---|"]
    for m in rows:
        res=m["checks_run"]["results"]
        caught=", ".join(k for k,v in res.items() if v["caught"]) or "-"
        missed=", ".join(k for k,v in res.items() if not v["caught"])
        classes="; ".join(sorted({c for v in res.values() for c in v["classes"]}))[:170]
        out.append(f"| {m['id']} | {m['breaks_property']} | {caught}{' (not by: '+missed+')' if missed else ''} | {classes} |")
    out+=["","## Checks strengthened because they first missed a change",""]
    for who,what,why,fix in STRENGTHENED:
        out.append(f"* **{who}** ({what}). *Why missed:* {why}. *Now:* {fix}.")
    out+=["","## Not caught by the owning property's check (caught by another)","",
"* **C03r3-C** - see the note above: C01 reports it; C03 cannot within its families.",""]
    out+=["","## Not caught","",
"* **C13r2-A** (an inner search node returns the *first* forced mate it meets instead of the shortest, so the value",
"  depends on move-generation order, which the colour mirror reverses). The root score only changes when a node has",
"  both a short mate and a *longer* mate that is reached through the capture extension at the horizon (a chain of",
"  captures ending in a capturing mate) and the longer one is generated first in one orientation only. The author's",
"  witness is `2k5/2B5/4p3/2bKpP2/3p4/3Q4/8/8 w` at depth 2. Neither tier of C13 reports it: the catalogue",
"  (≈20 k mirror pairs: start-position BFS, catalogue roots and their depth-2 neighbourhoods up to 12 men, K+x v K",
"  endgame families, castling endgames, 50 k Q+R v R five-men positions tried at stride 101) contains no pair with",
"  that structure; two families were added while trying (`competing_mates_family`, sparse BFS states) and kept because",
"  they widen C13, but they do not reach it. An exhaustive family that would reach it needs at least two capturable",
"  black units plus a recapture next to a mating net (≥ 7 men), which is outside what C13 can enumerate in minutes.",
"  The author's own random probe hit it in 4 of 30 000 sparse positions.",""]
    out+=["","## Changes rejected (not kept)","",
"None of the agents' changes was rejected. Six of my own candidate mutants were discarded because the repository's",
"tests already kill them, and two are equivalent with respect to the property text (see MUTANTS.md).",""]
    open('/verif/seeded/RESULTS.md','w').write("\n".join(out))
    print(len(rows),"rows")
main()
