#!/usr/bin/env python3
"""Regenerates /verif/MANIFEST.json from the table below (single source of truth)."""
import json, sys

TRUSTED = "reference model refchess (perft-gated at every run, cross-checked against shakmaty at setup); rustc/cargo; the harness itself"

CHECKS = {
 "C01": ("model_checking", "explicit-state BFS over positions (real move_new/legals in lock-step with a reference model) + complete small-material families",
         "Every state of a BFS from ~150 roots (start to depth 4 quick / 6 thorough) and every member of the small-material families (en passant with one or two capturers, the same positions reached by PLAYING the double push, castling, promotion, promotion pins, pawn pushes, kings+1): generated move set == reference legal set (no duplicates), is_legal agrees on every legal move, every near miss, and on all 20480 triples for shallow and strided states; played successors that differ from the rebuilt position are checked themselves; a fatal signal inside the implementation is a reported violation.", "3 C01"),
 "C02": ("model_checking", "explicit-state BFS: every transition executed on the real Board and the reference, successors compared field by field; illegal triples offered to all three checked operations",
         "Every transition of the BFS and the special-move transitions of the families: successor placement, side, rights, ep marker, clocks equal the reference successor and the re-parsed reference FEN; move_new/move_mut/move_into agree; refused moves leave board/output untouched.", "3 C02"),
 "C03": ("model_checking", "explicit-state BFS with differential oracle: played-to board vs the same position rebuilt from text",
         "Every played-to state: in_check/state() equal the reference classification, and the board is indistinguishable (moves, check, state, hash, text, Debug rendering of pin/checker marks) from parse(reference FEN). Families add en-passant-, promotion- and castling-delivered checks.", "3 C03"),
 "C04": ("model_checking", "explicit-state BFS with transposition table: every arrival at a known identity must carry the first-seen hash; all 794 keys pairwise",
         "All transpositions inside the depth bound hash equal; incremental hash == from-scratch hash; Hash trait feeds equal bytes for equal boards; hash independent of clocks; builder-assembled boards hash like parsed ones; every component influences the hash (one-component neighbours that are unequal hash differently); 794 keys pairwise distinct and non-zero.", "3 C04"),
 "C05": ("model_checking", "explicit-state BFS + complete FEN field products, writer/parser round trips on every state",
         "Every BFS state and family member: parse(to_string(b)) == b with same clocks/hash/derived state; to_string(parse(fen)) == fen byte for byte; complete field products (16 rights x ep files x sides, clocks 0..9999); standard() vs parser vs builder.", "3 C05"),
 "C06": ("exploration", "complete enumeration of bounded edit distance around seed FENs (all single edits x 256 byte values, all double edits over a per-match-arm alphabet), all short strings, field-spelling products, builder call sequences",
         "Totality (no panic, also in the overflow-trapping build flavour) on every enumerated byte string; every accepted board satisfies the playability invariants evaluated by the reference model, including the complete domains of the castling-rights and en-passant validations; canonical FENs of reachable positions and of every small-material family member are accepted and parse to that position; builder sequences likewise and equal to the parsed twin.", "3 C06"),
 "C07": ("exploration", "exhaustive drivers of the other properties re-executed in a trapping build (debug assertions + overflow checks + std unsafe-precondition checks) inside worker processes; crash oracle",
         "Every case of the C01/C03/C06(+two-ply safe-API exercise of every accepted board)/C08/C10/C11/C12/C15/C17/C18 drivers plus extremal positions (18-entry move lists, clock counters at the 16-bit limit, rejected-by-validation shapes), perft_test at small depths, DurationTimeout at boundary durations and degenerate search roots runs without panic, overflow trap, failed assertion or fatal signal.", "3 C07"),
 "C08": ("exploration", "complete enumeration of every ray-subset occupancy for 64 squares x 2 sliders against ray casting",
         "Exhaustive over the 1 119 744 ray-subset occupancies (x4 off-ray/own-square variants) plus single off-ray toggles; the check runs in the trapping build flavour, where an out-of-range table index panics (checked indexing) and is reported.", "3 C08"),
 "C09": ("exploration", "complete enumeration of all geometry tables, pawn helpers (every relevant occupancy) and constants against (file,rank) definitions and the generator",
         "Finite domain enumerated completely.", "3 C09"),
 "C10": ("model_checking", "deviation-bounded stateless exploration of operation sequences on the real MoveGen against a set model (0, 1, 2 mutators at every point; 3 in thorough)",
         "Every run over 37 mutator instances (incl. remove_move of non-members sharing source and destination with members) x every placement, plus king_legals of both colours, driven to exhaustion with len/is_empty/size_hint checked after every step; two data-structure limitations are known findings (F12, F13).", "3 C10"),
 "C11": ("fault_enumeration", "environment-answer enumeration: a counting timeout expires at poll k for every k; one complete real search per (position, k), plugin boundary included",
         "For every position of the catalogue (incl. forced-move roots) and every expiry index up to three completed passes (or the cap): terminates, returns no move or a reference-legal move, a move whenever a pass completed or the search ended by itself and moves exist, no move when none exist; repeated with one Engine reused across two positions, through the plugin boundary, and with a tracing subscriber installed.", "3 C11"),
 "C12": ("exploration", "complete enumeration of KQ-K / KR-K / KP-K positions and mate scenarios, each searched until the first pass completes",
         "Mate in one is returned with a mate-in-one score whenever the first pass completes, and a mate-in-one score is only reported with a mating move; positional evaluation off and on; families include mates that compete with captures, capture-mates into minor-piece endings, promotion-only and knight-under-promotion mates.", "3 C12"),
 "C13": ("exploration", "differential enumeration: every catalogue position vs its colour mirror, scores per completed depth collected over a ladder of expiry points",
         "score_d(position) == negate(score_d(mirror)) for every depth both searches complete below the cap; catalogue = structured families (BFS states, endgames, castling, material signatures) plus two fixed pseudo-random lists of sparse positions executed completely (stated in the evidence, exhaustive:false).", "3 C13"),
 "C14": ("exploration", "complete enumeration of pairs/triples over representative scores; thorough: all 65536^2 mate-distance pairs and all 2^32 numeric scores",
         "Total-order laws and the stated preference order on all representative pairs and triples; thorough closes the payload domains.", "3 C14"),
 "C15": ("model_checking", "exhaustive enumeration of call histories (make_move legal/illegal, set_board, evaluate) on the real plugin loaded through the stable ABI, against a reference board and occurrence counter",
         "Every maximal history over three move alphabets to the stated depths, illegal submissions at every position, set_board of every catalogue root with every two-move sequence and with four-ply cycles played three times, the plugin's own suggestions submitted back; replayed on a fresh engine: legality gate, board == reference successor, repetition flag exactly on the third occurrence since the board was set, proposals legal.", "3 C15"),
 "C16": ("exploration", "complete enumeration of all 20481 optional moves and all mate distances; numeric scores exhaustive in thorough",
         "Round trip identity through the ABI-stable encodings for every move and score enumerated.", "3 C16"),
 "C17": ("exploration", "complete depth-first walk of the embedded book trie with the real Board and the reference in lock-step (trapping build)",
         "All 29 036 book nodes: legal, no promotion needed, same successor, child index strictly below parent and inside the table, iteration terminates.", "3 C17"),
 "C18": ("exploration", "complete enumeration of structured bitboard families against a [bool;64] set model; iterator explored as a state machine",
         "Every operation on every member of the stated family (~76k boards incl. all subsets of a 16-square edge window, rank-symmetric and irregular boards); nth(n) result and residual state for all n up to 66 and usize::MAX from every suffix state.", "3 C18"),
 "C20": ("model_checking", "two engines: BFS over reference states with every (thread, op) + suffix executed on fresh OS threads in lock-step; loom (controlled scheduler, DPOR, preemption bound 3) on the unmodified source through a std shim, linearizability oracle",
         "Engine A closes histories at operation granularity on the real thread-local machinery (incl. late-born threads, two live tokens, and delivery through the GlobalEnable layer); engine B covers every interleaving inside the operations for all pairs of <=2-op programs (3 in thorough).", "3 C20"),
 "C19": ("exploration", "complete enumeration of byte strings (all 1-2 byte strings, all 4-5 byte move strings over a confusable alphabet, every single-byte substitution of every valid move text, non-ASCII substitutions for the FromStr parsers) and BFS-to-closure of the enumerating iterators",
         "Parsers accept exactly the intended spellings on every enumerated string; conversions consistent on all values; iterators equal slice iterators on every reachable state.", "3 C19"),
}

NOT_YET = {
}

def main():
    checks = []
    for pid, (cat, technique, text, ref) in sorted(CHECKS.items()):
        checks.append({
            "property_id": pid,
            "quick_cmd": f"./check {pid} --tier quick",
            "thorough_cmd": f"./check {pid} --tier thorough",
            "evidence_file": f"/verif/evidence/{pid}.json",
            "replay_cmd_template": "./check replay {path}",
            "engine": "vcheck",
            "level_claimed": {"category": cat, "text": text, "design_ref": f"DESIGN.md section {ref}"},
            "level_note": TRUSTED,
            "technique": technique,
        })
    allp = [f"C{i:02d}" for i in range(1, 21)]
    na = [{"property_id": p, "reason": NOT_YET.get(p, "check not built yet in this session; planned per DESIGN.md section 9 (not a claim that the technique cannot apply)")} for p in allp if p not in CHECKS]
    m = {
        "version": 1,
        "setup_cmd": "./check setup",
        "hooks": {
            "guard": "rustyyato_chess_verif",
            "enable": "none needed: every observation is made through public API; the guard name is reserved and no source commit uses it",
            "baseline_off_cmd": "cd /repo && cargo test --workspace --no-fail-fast --offline",
            "source_commits": [],
            "add_only": True,
        },
        "engines": [
            {"name": "c20loom", "path": "/verif/harness-loom", "serves_properties": ["C20"], "kind_free_text": "loom 0.7.2 exploring the unmodified tracing-enabled source compiled against a std shim"},
            {"name": "vcheck", "path": "/verif/harness/vcheck", "serves_properties": sorted(CHECKS), "kind_free_text": "purpose-built explicit-state / exhaustive-enumeration explorer in Rust driving the real crates against the refchess reference model"},
        ],
        "checks": checks,
        "not_applicable": na,
        "notes": "exit 0 held / 1 VIOLATION / 2 machinery failure. known_findings.json lists genuine defects (fixed ones suppress nothing).",
    }
    json.dump(m, open("/verif/MANIFEST.json", "w"), indent=1)
    print("wrote MANIFEST.json with", len(checks), "checks;", len(na), "not claimed")

if __name__ == "__main__":
    main()
