#!/bin/bash
# tools/vet_seeded.sh <ID> <A|B> <tier> <check-id>...
# Re-confirms an independently produced change on a scratch worktree (compiles, 44 tests pass,
# demonstration passes without / fails with it), runs the named checks against it, and files it
# under /verif/seeded/<ID>-<X>/ with meta.json.
set -u
id="$1"; x="$2"; tier="$3"; shift 3
src=/tmp/wt/$id-out/$x
dst=/verif/seeded/$id-$x
wt=/tmp/wt/tryp
[ -f $src/patch.diff ] || { echo "no $src/patch.diff"; exit 2; }
if [ ! -d $wt ]; then git -C /repo worktree add -q --detach $wt HEAD || exit 2; fi
git -C $wt checkout -q --detach $(git -C /repo rev-parse HEAD); git -C $wt checkout -q -- .; git -C $wt clean -qfd -e target
# PHASE=1: only the confirmation on the scratch worktree (result cached); PHASE=2: use the cached
# confirmation and run the checks; unset: both
cache=/tmp/wt/vet1/$id-$x.txt
if [ "${PHASE:-}" = 2 ] && [ -f $cache ]; then
  . $cache
else
# demonstration on the clean tree
(bash $src/run.sh $wt >/tmp/wt/vet-clean.log 2>&1); rc_clean=$?
git -C $wt apply $src/patch.diff || { echo "patch does not apply"; exit 2; }
tests=$(cd $wt && cargo test --workspace --offline -j 8 2>&1 | grep -E "^test result|^error" | awk '/^error/ {e=1} {p+=$4; f+=$6} END {print "passed=" p " failed=" f " builderror=" e+0}')
(bash $src/run.sh $wt >/tmp/wt/vet-mut.log 2>&1); rc_mut=$?
git -C $wt checkout -q -- .; git -C $wt clean -qfd -e target
mkdir -p /tmp/wt/vet1; printf 'tests="%s"\nrc_clean=%s\nrc_mut=%s\n' "$tests" "$rc_clean" "$rc_mut" > $cache
fi
echo "$id-$x: tests[$tests] demo_clean_rc=$rc_clean demo_with_change_rc=$rc_mut"
ok=1
case "$tests" in *"passed=44 failed=0 builderror=0"*) ;; *) ok=0;; esac
[ $rc_clean -eq 0 ] || ok=0
[ $rc_mut -ne 0 ] || ok=0
if [ $ok -ne 1 ]; then echo "$id-$x: NOT CONFIRMED, not kept"; exit 3; fi
[ "${PHASE:-}" = 1 ] && exit 0
res=$(SKIP_TESTS=1 /verif/tools/try_patch.sh $src/patch.diff $tier "$@" 2>&1)
echo "$res"
mkdir -p $dst
cp $src/patch.diff $dst/
cp $src/run.sh $src/README.md $dst/ 2>/dev/null
cp $src/*.rs $dst/ 2>/dev/null
python3 - "$id" "$x" "$tier" "$tests" "$rc_clean" "$rc_mut" "$dst" "$res" "$@" <<'PY'
import json,sys,re
id,x,tier,tests,rc_clean,rc_mut,dst,res=sys.argv[1:9]; checks=sys.argv[9:]
caught={}
for line in res.splitlines():
    m=re.match(r'^(C\d\d) rc=(\d+)',line)
    if m: caught[m.group(1)]={"exit":int(m.group(2)),"caught":m.group(2)=="1","classes":[]}
    m2=re.match(r'^\s+class=(\S+)',line)
    if m2 and caught: caught[list(caught)[-1]]["classes"].append(m2.group(1))
readme=open(dst+"/README.md").read() if True else ""
meta={"id":f"{id}-{x}","breaks_property":id[:3],"source":"fresh sub-agent given only the property record and a scratch worktree",
 "needs_to_manifest":"see README.md (written by the author of the change)",
 "confirmed":{"repo_tests_with_change":tests,"demonstration_exit_on_clean_tree":int(rc_clean),"demonstration_exit_with_change":int(rc_mut)},
 "checks_run":{"tier":tier,"results":caught}}
json.dump(meta,open(dst+"/meta.json","w"),indent=1)
print("filed",dst, {k:v["caught"] for k,v in caught.items()})
PY
