#!/bin/bash
# tools/try_patch.sh <patch.diff> <tier> <ID> [<ID>...]
# 1. (unless SKIP_TESTS=1) applies the patch to a scratch worktree and runs the repository's own test suite
# 2. applies the patch to /repo, runs the named checks, and ALWAYS reverts /repo afterwards
# prints one line per check: <ID> rc=<exit> (rc=1 means the check caught the change)
set -u
patch=$(realpath "$1"); tier="$2"; shift 2
if [ -n "$(git -C /repo status --porcelain --untracked-files=no)" ]; then echo "refusing: /repo working tree is not clean"; exit 2; fi
if [ "${SKIP_TESTS:-0}" != 1 ]; then
    wt=/tmp/wt/tryp
    if [ ! -d $wt ]; then git -C /repo worktree add -q --detach $wt HEAD || exit 2; else git -C $wt checkout -q --detach $(git -C /repo rev-parse HEAD) && git -C $wt checkout -q -- . ; fi
    git -C $wt apply "$patch" || { echo "patch does not apply"; exit 2; }
    res=$(cd $wt && cargo test --workspace --offline -j 8 2>&1 | grep -E "^test result|^error" | awk '/^error/ {e=1} {p+=$4; f+=$6} END {print "passed=" p " failed=" f " builderror=" e+0}')
    git -C $wt checkout -q -- .
    echo "repo-tests: $res"
    case "$res" in *"passed=44 failed=0 builderror=0"*) ;; *) echo "repo test suite does not pass with this patch: not a valid seeded change"; exit 3;; esac
fi
git -C /repo apply "$patch" || { echo "patch does not apply to /repo"; exit 2; }
# evidence written while a patch is applied describes the patched tree: keep the clean-tree files
evbak=$(mktemp -d /tmp/evbak.XXXXXX); cp -a /verif/evidence/. "$evbak"/ 2>/dev/null
trap 'git -C /repo checkout -q -- .; rm -rf /verif/evidence; mkdir -p /verif/evidence; cp -a "$evbak"/. /verif/evidence/; rm -rf "$evbak"' EXIT
for id in "$@"; do
    out=$(cd /verif && ./check $id --tier $tier 2>&1); rc=$?
    echo "$id rc=$rc $(echo "$out" | grep -E '^(VIOLATION|MACHINERY)' | head -3 | cut -c1-160 | tr '\n' ';')"
    echo "$out" | grep -A2 "^VIOLATION" | grep "class=" | head -3
done
